/-
Property C10 — "Back-to-back packets and padding in a frame are walked by consumed lengths".

If packets produced by the encapsulator are laid back to back in a frame buffer followed by zero
padding, a receiver that repeatedly calls `decap` on the remaining slice and advances by the
consumed length sees every packet exactly once, in order, with the same outcome as if each packet
were decapsulated alone, then (when at least two padding bytes remain) a padding status consuming
the rest of the frame.  The outcome for such a packet does not depend on the bytes that follow it
in the buffer; a packet rejected for a bad CRC, an unknown fragment id, lack of storage, an unknown
mandatory extension or an unresolvable re-use label consumes exactly its own length; and the
encapsulator never emits a packet that reads as padding.

All theorems hold for every CRC calculator `crc`, every mandatory-extension manager `mgr` and every
decapsulator state `ds` (no invariant of the fragment memory is assumed).  The work is done in
Lemmas/DecapPrefix.lean: every read of `decap` is a `slice`/`get8`/`get16`/`get32` inside the
packet, and the only other use of the buffer is its length in the "drop the rest of the frame"
error returns.

A packet is a byte string `p` with `pktLenOf p = some p.length`: at least the two header bytes, a
header that is not the padding pattern, and exactly `gse_len + 2` bytes.

About panics.  The model returns `⟨.panic, 0, _⟩` where the Rust code would panic, so the consumed
length of a panic outcome is the dummy 0 and is listed as a separate case.  Whether `decap` can
panic at all is the subject of C05, not of this file; here a panic of `decap` on a packet alone is
a panic of `decap` on the packet followed by anything, and conversely.
-/
import GseVerif.Lemmas.DecapPrefix
import GseVerif.Lemmas.EncapLayer
import GseVerif.Lemmas.Header
import GseVerif.Props.C14

namespace Gse
open Gen

/-! ### Fixtures for the `example`s -/
namespace C10
/-- a CRC calculator that is cheap to evaluate (the theorems are for every calculator) -/
def crc0 : CrcFn := fun _ _ _ _ => 0xDEADBEEF
def lab3 : Label := .three 7 8 9
/-- storage `i` of `n` bytes -/
def sto (i n : Nat) : Storage := ⟨i, List.replicate n 0⟩
/-- a decapsulator with two fragment slots and three 16-byte storages -/
def ds0 : Dec := ⟨⟨[sto 0 16, sto 1 16, sto 2 16], [none, none], 2, 16, 4⟩, none⟩
/-- a decapsulator without any storage -/
def dsEmpty : Dec := ⟨⟨[], [none, none], 2, 16, 4⟩, none⟩
/-- the bytes of the packet an encapsulation call wrote -/
def pktOf (o : EncOut) : Bytes :=
  match o.res with
  | .ok (.completed n) => o.buf.take n
  | .ok (.fragmented n _) => o.buf.take n
  | _ => []
/-- first call: PDU `[1, 2, 3]` under the 3-byte label, into a 20-byte buffer -/
def outA : EncOut := encap crc0 Enc.new [1, 2, 3] 0 0x0800 lab3 (List.replicate 20 0xEE)
/-- second call, same label: sent with label re-use -/
def outB : EncOut := encap crc0 outA.st [4, 5] 0 0x0800 lab3 (List.replicate 20 0xEE)
def pktA : Bytes := pktOf outA
def pktB : Bytes := pktOf outB
/-- two packets back to back and three padding bytes -/
def frame : Bytes := pktA ++ pktB ++ [0, 0, 0]
/-- a complete packet whose extension header (type 0x0234: two data bytes) runs out of the packet -/
def pktShortExt : Bytes := [0xE0, 0x02, 0x02, 0x34]
/-- a complete packet whose 17-byte PDU does not fit the 16-byte storages -/
def pktBig : Bytes :=
  pktOf (encap crc0 Enc.new (List.replicate 17 7) 0 0x0800 lab3 (List.replicate 40 0))
/-- an end packet for a fragment id that is not open -/
def pktEnd : Bytes := [0x70, 0x06, 0x01, 0xAA, 0x00, 0x00, 0x00, 0x00]
end C10
open C10

example : pktA = [0xD0, 0x08, 0x08, 0x00, 7, 8, 9, 1, 2, 3] := by decide +kernel
example : pktB = [0xF0, 0x04, 0x08, 0x00, 4, 5] := by decide +kernel

/-! ### 1. The outcome does not depend on the bytes behind the packet -/

/-- **C10_prefix.**  For a packet `p` and any `rest`, `decap` on `p ++ rest` gives the same result
and the same new state as on `p` alone.  The consumed length is `p.length`, unless the result is
one of the "drop the rest of the frame" errors `DropErr mgr p` (a subset of the frame-level errors
`ErrorGseLength`, `ErrorSizeBuffer`, `ErrorSizePduBuffer`, `ErrorTotalLength`), in which case it is
the whole buffer `(p ++ rest).length`. -/
theorem C10_prefix (crc : CrcFn) (mgr : MgrFn) (ds : Dec) (p rest : Bytes)
    (h : pktLenOf p = some p.length) :
    let o := decap crc mgr ds (p ++ rest)
    let o' := decap crc mgr ds p
    o.res = o'.res ∧ o.st = o'.st ∧
      ((o.res ≠ .panic ∧ o.consumed = p.length ∧ o'.consumed = p.length) ∨
       ((∃ e, DropErr mgr p e ∧ o.res = .err e) ∧ o.consumed = (p ++ rest).length ∧
          o'.consumed = p.length) ∨
       (o.res = .panic ∧ o.consumed = 0 ∧ o'.consumed = 0)) := by
  obtain ⟨h1, h2, h3⟩ := decap_append crc mgr ds p rest h
  exact ⟨h1.symm, h2.symm, h3⟩

example : pktLenOf pktA = some pktA.length := by decide +kernel
/-- the first packet of the frame, with the second packet and the padding behind it -/
example : decap crc0 simpleMgr ds0 (pktA ++ (pktB ++ [0, 0, 0])) =
    { decap crc0 simpleMgr ds0 pktA with consumed := 10 } ∧
    (decap crc0 simpleMgr ds0 pktA).res =
      .ok (.completed ⟨0, [1, 2, 3] ++ List.replicate 13 0⟩ ⟨3, 0x0800, lab3, []⟩) := by
  decide +kernel

/-- The same for a buffer and its first `n = pktLenOf buf` bytes. -/
theorem C10_prefix_take (crc : CrcFn) (mgr : MgrFn) (ds : Dec) (buf : Bytes) (n : Nat)
    (h : pktLenOf buf = some n) :
    let o := decap crc mgr ds buf
    let o' := decap crc mgr ds (buf.take n)
    o.res = o'.res ∧ o.st = o'.st ∧
      ((o.res ≠ .panic ∧ o.consumed = n ∧ o'.consumed = n) ∨
       ((∃ e, DropErr mgr (buf.take n) e ∧ o.res = .err e) ∧ o.consumed = buf.length ∧
          o'.consumed = n) ∨
       (o.res = .panic ∧ o.consumed = 0 ∧ o'.consumed = 0)) := by
  obtain ⟨h1, h2, h3⟩ := decap_take crc mgr ds buf n h
  exact ⟨h1.symm, h2.symm, h3⟩

example : pktLenOf frame = some 10 ∧ frame.take 10 = pktA := by decide +kernel

/-- The coarser form: a result other than a panic and the four frame-level errors is returned with
the packet length. -/
theorem C10_len_of_not_frameErr (crc : CrcFn) (mgr : MgrFn) (ds : Dec) (p rest : Bytes)
    (h : pktLenOf p = some p.length)
    (hp : (decap crc mgr ds (p ++ rest)).res ≠ .panic)
    (hf : ¬ FrameErr (decap crc mgr ds (p ++ rest)).res) :
    (decap crc mgr ds (p ++ rest)).consumed = p.length := by
  obtain ⟨_, _, h3 | h3 | h3⟩ := decap_append_frameErr crc mgr ds p rest h
  · exact h3.2.1
  · exact absurd h3.1 hf
  · exact absurd h3.1 hp

example : (decap crc0 simpleMgr ds0 (pktA ++ [1, 2, 3, 4])).res ≠ .panic ∧
    ¬ FrameErr (decap crc0 simpleMgr ds0 (pktA ++ [1, 2, 3, 4])).res := by decide +kernel

/-- The frame-level errors really drop the rest of the frame (so the exception in `C10_prefix` is
not vacuous): an extension header running out of the packet. -/
example : pktLenOf pktShortExt = some 4 ∧
    decap crc0 simpleMgr ds0 (pktShortExt ++ [0xAA, 0xBB, 0xCC]) =
      ⟨.err .sizePduBuffer, 7, ⟨ds0.mem, none⟩⟩ ∧
    decap crc0 simpleMgr ds0 pktShortExt = ⟨.err .sizePduBuffer, 4, ⟨ds0.mem, none⟩⟩ := by
  decide +kernel

/-- The panic case of `C10_prefix` cannot be dropped from the statement as long as no invariant of
the fragment memory is assumed: a memory whose slot array is shorter than `max_frag_id` (not
reachable from `SimpleGseMemory::new`) makes the model report a panic, with consumed length 0 on
both sides. -/
example : let bad : Dec := ⟨⟨[], [], 1, 16, 3⟩, none⟩
    pktLenOf [0x30, 0x02, 0x01, 0xAA] = some 4 ∧
    decap crc0 simpleMgr bad ([0x30, 0x02, 0x01, 0xAA] ++ [0, 0]) = ⟨.panic, 0, bad⟩ ∧
    decap crc0 simpleMgr bad [0x30, 0x02, 0x01, 0xAA] = ⟨.panic, 0, bad⟩ := by decide +kernel

/-! ### 2. Rejected packets consume exactly their own length -/

/-- the extension-header walk `decap` performs on a complete packet or first fragment `p`
(`none`: other kinds, or a protocol type ≥ `SECOND_RANGE_PTYPE`: no extension) -/
def extWalkOf (mgr : MgrFn) (p : Bytes) : Option (Res WalkErr WalkOk) :=
  match hdrOf p with
  | some (gseLen, .complete, lt) =>
    walkAt mgr p FIXED_HEADER_LEN (FIXED_HEADER_LEN + PROTOCOL_LEN + lt.len)
      (gseLen + FIXED_HEADER_LEN)
  | some (gseLen, .first, lt) =>
    walkAt mgr p (FIXED_HEADER_LEN + FRAG_ID_LEN + TOTAL_LENGTH_LEN)
      (FIXED_HEADER_LEN + FRAG_ID_LEN + TOTAL_LENGTH_LEN + PROTOCOL_LEN + lt.len)
      (gseLen + FIXED_HEADER_LEN)
  | _ => none

/-- `ErrorSizePduBuffer` drops the rest of the frame only when it comes from the extension walk -/
theorem dropErr_sizePduBuffer {mgr : MgrFn} {p : Bytes} (h : DropErr mgr p .sizePduBuffer) :
    extWalkOf mgr p = some (.err .bufferTooSmall) := by
  unfold DropErr at h
  unfold extWalkOf
  split at h
  · rename_i hh; rw [hh]
    rcases h with h | ⟨_, h⟩
    · cases h
    · exact h
  · rename_i hh; rw [hh]
    rcases h with h | h | ⟨_, h⟩
    · cases h
    · cases h
    · exact h
  · cases h
  · cases h
  · exact h.elim

/-- `ErrorTotalLength` drops the rest of the frame only in a first fragment -/
theorem dropErr_totalLength {mgr : MgrFn} {p : Bytes} (h : DropErr mgr p .totalLength) :
    ∃ gseLen lt, hdrOf p = some (gseLen, .first, lt) := by
  unfold DropErr at h
  split at h
  · rcases h with h | ⟨h, _⟩ <;> cases h
  · exact ⟨_, _, ‹_›⟩
  · cases h
  · cases h
  · exact h.elim

/-- **C10_reject_len.**  A packet that is rejected for a bad CRC, by the fragment memory (unknown
fragment id, no storage left, …), for an unknown mandatory extension, an unresolvable re-use label
or the reserved zero label — and every packet that is accepted — consumes exactly its own length,
whatever follows it in the buffer. -/
theorem C10_reject_len (crc : CrcFn) (mgr : MgrFn) (ds : Dec) (p rest : Bytes)
    (h : pktLenOf p = some p.length)
    (hr : let r := (decap crc mgr ds (p ++ rest)).res
      r = .err .crc ∨ (∃ e, r = .err (.memory e)) ∨ r = .err .unknownMandatoryHeader ∨
      r = .err .noLabelSaved ∨ r = .err .labelBroadcastSaved ∨ r = .err .labelReUseSaved ∨
      r = .err .invalidLabel ∨ r = .err .protocolType ∨ (∃ s, r = .ok s)) :
    (decap crc mgr ds (p ++ rest)).consumed = p.length := by
  apply C10_len_of_not_frameErr crc mgr ds p rest h
  · rcases hr with hr | ⟨e, hr⟩ | hr | hr | hr | hr | hr | hr | ⟨s, hr⟩ <;> rw [hr] <;> simp
  · rcases hr with hr | ⟨e, hr⟩ | hr | hr | hr | hr | hr | hr | ⟨s, hr⟩ <;> rw [hr] <;>
      simp [FrameErr]

/-- in particular the two memory errors named in the property -/
theorem C10_reject_len_memory (crc : CrcFn) (mgr : MgrFn) (ds : Dec) (p rest : Bytes)
    (h : pktLenOf p = some p.length)
    (hr : (decap crc mgr ds (p ++ rest)).res = .err (.memory .undefinedId) ∨
          (decap crc mgr ds (p ++ rest)).res = .err (.memory .storageUnderflow)) :
    (decap crc mgr ds (p ++ rest)).consumed = p.length :=
  C10_reject_len crc mgr ds p rest h
    (Or.inr (Or.inl (hr.elim (fun h => ⟨_, h⟩) (fun h => ⟨_, h⟩))))

/-- unknown fragment id: the end packet is skipped, the bytes behind it are kept -/
example : pktLenOf pktEnd = some pktEnd.length ∧
    decap crc0 simpleMgr ds0 (pktEnd ++ pktB) = ⟨.err (.memory .undefinedId), 8, ds0⟩ := by
  decide +kernel
/-- no storage left -/
example : decap crc0 simpleMgr dsEmpty (pktA ++ pktB) =
    ⟨.err (.memory .storageUnderflow), 10, ⟨dsEmpty.mem, none⟩⟩ := by decide +kernel
/-- re-use label without a remembered label: the storage goes back, the packet is skipped -/
example : (decap crc0 simpleMgr ds0 (pktB ++ pktA)).res = .err .noLabelSaved ∧
    (decap crc0 simpleMgr ds0 (pktB ++ pktA)).consumed = 6 ∧
    (decap crc0 simpleMgr ds0 (pktB ++ pktA)).st.mem.storages.length = 3 := by decide +kernel
/-- unknown mandatory extension (type 0x0081 is not known to the simple manager) -/
example : pktLenOf [0xE0, 0x04, 0x00, 0x81, 1, 2] = some 6 ∧
    decap crc0 simpleMgr ds0 ([0xE0, 0x04, 0x00, 0x81, 1, 2] ++ [9, 9, 9]) =
      ⟨.err .unknownMandatoryHeader, 6, ⟨ds0.mem, none⟩⟩ := by decide +kernel

/-- `ErrorSizePduBuffer` coming from the storage check (that is: not from an extension walk that
runs out of the packet) consumes exactly the packet. -/
theorem C10_reject_len_sizePduBuffer (crc : CrcFn) (mgr : MgrFn) (ds : Dec) (p rest : Bytes)
    (h : pktLenOf p = some p.length)
    (hr : (decap crc mgr ds (p ++ rest)).res = .err .sizePduBuffer)
    (hw : extWalkOf mgr p ≠ some (.err .bufferTooSmall)) :
    (decap crc mgr ds (p ++ rest)).consumed = p.length := by
  obtain ⟨_, _, h3 | ⟨⟨e, he, hre⟩, _⟩ | h3⟩ := decap_append crc mgr ds p rest h
  · exact h3.2.1
  · rw [hr] at hre; cases hre
    exact absurd (dropErr_sizePduBuffer he) hw
  · rw [hr] at h3; cases h3.1

/-- a 17-byte PDU does not fit the 16-byte storages: rejected, the next packet is kept -/
example : pktLenOf pktBig = some pktBig.length ∧ extWalkOf simpleMgr pktBig = none ∧
    (decap crc0 simpleMgr ds0 (pktBig ++ pktA)).res = .err .sizePduBuffer ∧
    (decap crc0 simpleMgr ds0 (pktBig ++ pktA)).consumed = pktBig.length := by decide +kernel

/-- `ErrorTotalLength` of an intermediate or end packet (accumulated length beyond the announced
total, mismatch at the end) consumes exactly the packet; only a first fragment drops the frame. -/
theorem C10_reject_len_totalLength (crc : CrcFn) (mgr : MgrFn) (ds : Dec) (p rest : Bytes)
    (h : pktLenOf p = some p.length)
    (hr : (decap crc mgr ds (p ++ rest)).res = .err .totalLength)
    (hk : ∀ gseLen lt, hdrOf p ≠ some (gseLen, .first, lt)) :
    (decap crc mgr ds (p ++ rest)).consumed = p.length := by
  obtain ⟨_, _, h3 | ⟨⟨e, he, hre⟩, _⟩ | h3⟩ := decap_append crc mgr ds p rest h
  · exact h3.2.1
  · rw [hr] at hre; cases hre
    obtain ⟨g, lt, hh⟩ := dropErr_totalLength he
    exact absurd hh (hk g lt)
  · rw [hr] at h3; cases h3.1

/-- an end packet whose length does not match the total length announced by the first fragment -/
example : let open1 : Dec :=
      ⟨⟨[sto 1 16], [none, some (⟨lab3, 0x0800, 1, 50, 3, false, []⟩, sto 0 16)], 2, 16, 4⟩, none⟩
    (∀ gseLen lt, hdrOf pktEnd ≠ some (gseLen, .first, lt)) ∧
    (decap crc0 simpleMgr open1 (pktEnd ++ pktA)).res = .err .totalLength ∧
    (decap crc0 simpleMgr open1 (pktEnd ++ pktA)).consumed = pktEnd.length := by
  refine ⟨?_, by decide +kernel, by decide +kernel⟩
  have : hdrOf pktEnd = some (6, .end_, .reuse) := by decide +kernel
  intro g lt hh
  rw [this] at hh
  cases hh

/-! ### 3. Padding -/

/-- a 16-bit word below 0x1000 is the padding pattern -/
theorem readHeader_of_lt {w : Nat} (h : w < 4096) : readHeader w = .ok none := by
  have : genHeader .inter .six w = w := by
    have := and_len_mask w
    simp only [GSE_LEN_MASK] at this
    simp [genHeader, startEndBits, labelTypeBits, this]
    omega
  rw [← this]
  exact readHeader_genHeader_padding w

/-- **C10_padding.**  A buffer of at least two bytes whose first header nibble is zero is padding:
`decap` consumes the whole buffer, leaves the memory alone and forgets the remembered label. -/
theorem C10_padding (crc : CrcFn) (mgr : MgrFn) (ds : Dec) (b : Bytes) (w : Nat)
    (hw : get16 b 0 = some w) (hz : w &&& 0xF000 = 0) :
    decap crc mgr ds b = ⟨.ok .padding, b.length, ⟨ds.mem, none⟩⟩ := by
  have hlen : ¬ b.length < FIXED_HEADER_LEN := by
    unfold get16 at hw
    split at hw
    · rename_i hs
      have := (slice_eq_some.mp hs).1
      simp only [FIXED_HEADER_LEN]; omega
    · cases hw
  unfold decap
  simp only []
  rw [if_neg hlen, hw]
  simp only [(C14_none_iff w (get16_lt hw)).mpr hz]

example : get16 [0x0A, 0xBC, 1, 2, 3] 0 = some 0x0ABC ∧ 0x0ABC &&& 0xF000 = 0 := by decide +kernel

/-- the same on the bytes: first byte below 0x10 -/
theorem C10_padding_bytes (crc : CrcFn) (mgr : MgrFn) (ds : Dec) (x y : UInt8) (tl : Bytes)
    (hx : x.toNat < 16) :
    decap crc mgr ds (x :: y :: tl) = ⟨.ok .padding, tl.length + 2, ⟨ds.mem, none⟩⟩ := by
  have hw : get16 (x :: y :: tl) 0 = some (rd16 x y) := by
    simp [get16, slice]
  have hlt : rd16 x y < 4096 := by
    have := y.toNat_lt
    simp only [rd16]; omega
  have hz : rd16 x y &&& 0xF000 = 0 :=
    (C14_none_iff _ (get16_lt hw)).mp (readHeader_of_lt hlt)
  simpa using C10_padding crc mgr ds (x :: y :: tl) _ hw hz

example : (0x0F : UInt8).toNat < 16 := by decide

/-- in particular zero padding of at least two bytes -/
theorem C10_padding_zeros (crc : CrcFn) (mgr : MgrFn) (ds : Dec) (m : Nat) (hm : 2 ≤ m) :
    decap crc mgr ds (List.replicate m 0) = ⟨.ok .padding, m, ⟨ds.mem, none⟩⟩ := by
  obtain ⟨k, rfl⟩ : ∃ k, m = k + 2 := ⟨m - 2, by omega⟩
  have := C10_padding_bytes crc mgr ds 0 0 (List.replicate k 0) (by decide)
  simpa [List.replicate_succ] using this

example : decap crc0 simpleMgr ds0 [0, 0, 0] = ⟨.ok .padding, 3, ⟨ds0.mem, none⟩⟩ := by
  decide +kernel

/-- a single remaining byte is not padding: `ErrorSizeBuffer`, consuming that byte -/
theorem C10_padding_one (crc : CrcFn) (mgr : MgrFn) (ds : Dec) (x : UInt8) :
    decap crc mgr ds [x] = ⟨.err .sizeBuffer, 1, ⟨ds.mem, none⟩⟩ := by
  unfold decap
  simp [Dec.fail]

/-! ### 4. The encapsulator never emits a packet that reads as padding -/

/-- length reported by an encapsulation call -/
def EncStatus.len : EncStatus → Nat
  | .completed n => n
  | .fragmented n _ => n

/-- The buffer `b` starts with a packet of `n` bytes that is not padding: the first header nibble
is not zero, the header does not read as "no packet", and the first `n` bytes are a packet in the
sense of `pktLenOf` (so `C10_prefix`, `C10_reject_len`, `C10_walk` apply to them). -/
def StartsWithPacket (b : Bytes) (n : Nat) : Prop :=
  ∃ w, get16 b 0 = some w ∧ w &&& 0xF000 ≠ 0 ∧ readHeader w ≠ .ok none ∧
    pktLenOf (b.take n) = some n

theorem startsWithPacket_mk (k : PktType) (lt : LabelType) (gseLen : Nat) (body tail : Bytes)
    {n : Nat} (hk : ¬(k = .inter ∧ lt = .six)) (hl : gseLen ≤ GSE_LEN_MAX)
    (hb : body.length = gseLen) (hn : n = gseLen + FIXED_HEADER_LEN) :
    StartsWithPacket (be16 (genHeader k lt gseLen) ++ (body ++ tail)) n := by
  subst hn
  have hl' : gseLen ≤ 4095 := by simpa using hl
  have hmod : genHeader k lt gseLen % 65536 = genHeader k lt gseLen :=
    Nat.mod_eq_of_lt (genHeader_lt k lt gseLen)
  have hrd := readHeader_genHeader k lt gseLen hl' hk
  refine ⟨genHeader k lt gseLen, ?_, C14_gen_nonpadding k lt gseLen hk, ?_, ?_⟩
  · rw [get16_be16, hmod]
  · rw [hrd]; simp
  · have hlen : (be16 (genHeader k lt gseLen) ++ body).length = gseLen + FIXED_HEADER_LEN := by
      simp only [List.length_append, be16_length, hb, FIXED_HEADER_LEN]; omega
    rw [← List.append_assoc, List.take_left' hlen]
    unfold pktLenOf
    rw [hlen, if_neg (by simp only [FIXED_HEADER_LEN]; omega), get16_be16, hmod]
    simp only [hrd]
    rw [if_neg (by omega)]

/-- **C10_not_padding** for `encap`: a call that returns `Ok` has written a packet that is not
padding, of the reported length. -/
theorem C10_not_padding_encap (crc : CrcFn) (es : Enc) (pdu : Bytes) (fid pt : Nat) (label : Label)
    (buf : Bytes) (s : EncStatus) (h : (encap crc es pdu fid pt label buf).res = .ok s) :
    StartsWithPacket (encap crc es pdu fid pt label buf).buf s.len := by
  have hc := encap_cases crc es pdu fid pt label buf
  dsimp only at hc
  generalize (checkLabelReUse es label).1 = lbl at hc
  generalize (checkLabelReUse es label).2 = es1 at hc
  have hl6 := lbl.len_le_six
  rcases hc with ⟨_, hc⟩ | ⟨_, _, hc⟩ | ⟨_, _, hf, hc⟩ | ⟨_, _, _, _, hc⟩ | ⟨_, _, _, _, _, hc⟩ |
    ⟨_, _, _, hb, _, hlt, hc⟩ <;> rw [hc] at h ⊢ <;> simp only [Res.ok.injEq, reduceCtorEq] at h
  · subst h
    have := startsWithPacket_mk .complete lbl.type (pdu.length + lbl.len + PROTOCOL_LEN)
      (be16 pt ++ lbl.bytes ++ pdu)
      (buf.drop (FIXED_HEADER_LEN + PROTOCOL_LEN + lbl.len + pdu.length))
      (n := pdu.length + lbl.len + PROTOCOL_LEN + FIXED_HEADER_LEN) (by simp) hf.2
      (by simp only [List.length_append, be16_length, Label.bytes_length, PROTOCOL_LEN]; omega) rfl
    simpa only [List.append_assoc, EncStatus.len] using this
  · subst h
    have hn := firstPayloadLen_eq lbl.len buf.length
    generalize firstPayloadLen lbl.len buf.length = n at *
    have := startsWithPacket_mk .first lbl.type
      (FRAG_ID_LEN + TOTAL_LENGTH_LEN + PROTOCOL_LEN + lbl.len + n)
      ([u8 fid] ++ be16 (pdu.length + PROTOCOL_LEN + lbl.len) ++ be16 pt ++ lbl.bytes ++ pdu.take n)
      (buf.drop (FIRST_FRAG_LEN + lbl.len + n)) (n := FIRST_FRAG_LEN + lbl.len + n) (by simp)
      (by gse_omega)
      (by simp only [List.length_append, be16_length, Label.bytes_length, List.length_cons,
            List.length_nil, List.length_take, FRAG_ID_LEN, TOTAL_LENGTH_LEN, PROTOCOL_LEN]; omega)
      (by gse_omega)
    simpa only [List.append_assoc, EncStatus.len] using this

/-- the two packets of the fixtures: a complete packet with a 3-byte label, one with label re-use -/
example : outA.res = .ok (.completed 10) ∧ outB.res = .ok (.completed 6) ∧
    StartsWithPacket outA.buf 10 ∧ StartsWithPacket outB.buf 6 :=
  ⟨by decide +kernel, by decide +kernel,
   C10_not_padding_encap _ _ _ _ _ _ _ (.completed 10) (by decide +kernel),
   C10_not_padding_encap _ _ _ _ _ _ _ (.completed 6) (by decide +kernel)⟩
/-- a first fragment: 5000-byte PDU into a 30-byte buffer -/
example : (encap crc0 Enc.new (List.replicate 5000 7) 1 0x0800 lab3 (List.replicate 30 0)).res
    = .ok (.fragmented 30 ⟨1, 0xDEADBEEF, 20⟩) := by decide +kernel

/-- **C10_not_padding** for `encap_frag`: intermediate and end packets carry the re-use label
type, never the padding pattern. -/
theorem C10_not_padding_encapFrag (pdu : Bytes) (ctx : FragCtx) (buf : Bytes) (s : EncStatus)
    (h : (encapFrag pdu ctx buf).1 = .ok s) :
    StartsWithPacket (encapFrag pdu ctx buf).2 s.len := by
  have hc := encapFrag_cases pdu ctx buf
  dsimp only at hc
  rcases hc with ⟨_, hc⟩ | ⟨hpos, hf, hc⟩ | ⟨hpos, _, hb, h1, hr, hc, _⟩ | ⟨_, _, _, hc⟩ <;>
    rw [hc] at h ⊢ <;> simp only [Res.ok.injEq, reduceCtorEq] at h
  · subst h
    have := startsWithPacket_mk .end_ .reuse (FRAG_ID_LEN + (pdu.length - ctx.pos) + CRC_LEN)
      ([u8 ctx.fragId] ++ pdu.drop ctx.pos ++ be32 ctx.crc)
      (buf.drop (FIXED_HEADER_LEN + FRAG_ID_LEN + (pdu.length - ctx.pos) + CRC_LEN))
      (n := FIXED_HEADER_LEN + FRAG_ID_LEN + (pdu.length - ctx.pos) + CRC_LEN) (by simp) hf.2
      (by simp only [List.length_append, be32_length, List.length_cons, List.length_nil,
            List.length_drop, FRAG_ID_LEN, CRC_LEN])
      (by gse_omega)
    simpa only [List.append_assoc, EncStatus.len] using this
  · subst h
    have hn := interPayloadLen_eq (pdu.length - ctx.pos) buf.length
    generalize interPayloadLen (pdu.length - ctx.pos) buf.length = n at *
    have := startsWithPacket_mk .inter .reuse (FRAG_ID_LEN + n)
      ([u8 ctx.fragId] ++ (pdu.drop ctx.pos).take n)
      (buf.drop (FIXED_HEADER_LEN + (FRAG_ID_LEN + n)))
      (n := FIXED_HEADER_LEN + (FRAG_ID_LEN + n)) (by simp) (by gse_omega)
      (by simp only [List.length_append, List.length_cons, List.length_nil, List.length_take,
            List.length_drop, FRAG_ID_LEN]; omega)
      (by gse_omega)
    simpa only [List.append_assoc, EncStatus.len] using this

/-- an intermediate fragment and the end packet of the 30-byte PDU `0, 1, …` -/
example : let pdu : Bytes := (List.range 30).map UInt8.ofNat
    (encapFrag pdu ⟨1, 0xCAFE, 10⟩ (List.replicate 12 0)).1 = .ok (.fragmented 12 ⟨1, 0xCAFE, 19⟩) ∧
    (encapFrag pdu ⟨1, 0xCAFE, 19⟩ (List.replicate 40 0)).1 = .ok (.completed 18) := by
  decide +kernel

/-- **C10_not_padding** for `encap_ext` (extensions as `Extension::new` builds them: the variant
matches the data length, see `ExtOk` in Props/C09.lean). -/
theorem C10_not_padding_encapExt (crc : CrcFn) (es : Enc) (pdu : Bytes) (fid pt : Nat)
    (label : Label) (buf : Bytes) (exts : List Ext)
    (hwf : ∀ e ∈ exts, e.len = PROTOCOL_LEN + e.data.length) (s : EncStatus)
    (h : (encapExt crc es pdu fid pt label buf exts).res = .ok s) :
    StartsWithPacket (encapExt crc es pdu fid pt label buf exts).buf s.len := by
  have hc := encapExt_cases crc es pdu fid pt label buf exts hwf
  dsimp only at hc
  generalize (checkLabelReUse es label).1 = lbl at hc
  generalize (checkLabelReUse es label).2 = es1 at hc
  have hl6 := lbl.len_le_six
  rcases hc with ⟨_, hc⟩ | ⟨lastExt, hlast, hc⟩
  · rw [hc] at h; cases h
  have hne : exts ≠ [] := by rintro rfl; cases hlast
  have hml := extMiddle_length pt lbl hne hwf
  generalize extLen pt exts = x at *
  rcases hc with ⟨_, hc⟩ | ⟨_, ⟨_, hc⟩ | ⟨_, ⟨_, hc⟩ | ⟨_, ⟨hf, hc⟩ | ⟨_, _, hc⟩ | ⟨_, _, _, hc⟩ |
    ⟨_, hb, hnl, hlt, hc⟩⟩⟩⟩ <;> rw [hc] at h ⊢ <;> simp only [Res.ok.injEq, reduceCtorEq] at h
  · subst h
    have := startsWithPacket_mk .complete lbl.type (pdu.length + lbl.len + PROTOCOL_LEN + x)
      (extMiddle pt lbl exts ++ pdu)
      (buf.drop (FIXED_HEADER_LEN + PROTOCOL_LEN + lbl.len + x + pdu.length))
      (n := pdu.length + lbl.len + PROTOCOL_LEN + x + FIXED_HEADER_LEN) (by simp) hf.2
      (by simp only [List.length_append, hml, PROTOCOL_LEN]; omega) rfl
    simpa only [List.append_assoc, EncStatus.len] using this
  · subst h
    have hn := firstPayloadLen_eq (lbl.len + x) buf.length
    generalize firstPayloadLen (lbl.len + x) buf.length = n at *
    have hx : FRAG_ID_LEN + TOTAL_LENGTH_LEN + PROTOCOL_LEN + lbl.len + x ≤ GSE_LEN_MAX :=
      Nat.le_of_not_lt (fun hh => hnl (Or.inr hh))
    have := startsWithPacket_mk .first lbl.type
      (FRAG_ID_LEN + TOTAL_LENGTH_LEN + PROTOCOL_LEN + lbl.len + x + n)
      ([u8 fid] ++ be16 (pdu.length + PROTOCOL_LEN + lbl.len) ++ extMiddle pt lbl exts
        ++ pdu.take n)
      (buf.drop (FIRST_FRAG_LEN + lbl.len + x + n)) (n := FIRST_FRAG_LEN + lbl.len + x + n)
      (by simp) (by gse_omega)
      (by simp only [List.length_append, be16_length, List.length_cons, List.length_nil,
            List.length_take, hml, FRAG_ID_LEN, TOTAL_LENGTH_LEN, PROTOCOL_LEN]; omega)
      (by gse_omega)
    simpa only [List.append_assoc, EncStatus.len] using this

/-- **C10_not_padding.**  The three encapsulation functions together. -/
theorem C10_not_padding (crc : CrcFn) (es : Enc) (pdu : Bytes) (fid pt : Nat) (label : Label)
    (buf : Bytes) (ctx : FragCtx) (exts : List Ext)
    (hwf : ∀ e ∈ exts, e.len = PROTOCOL_LEN + e.data.length) :
    (∀ s, (encap crc es pdu fid pt label buf).res = .ok s →
      StartsWithPacket (encap crc es pdu fid pt label buf).buf s.len) ∧
    (∀ s, (encapFrag pdu ctx buf).1 = .ok s → StartsWithPacket (encapFrag pdu ctx buf).2 s.len) ∧
    (∀ s, (encapExt crc es pdu fid pt label buf exts).res = .ok s →
      StartsWithPacket (encapExt crc es pdu fid pt label buf exts).buf s.len) :=
  ⟨C10_not_padding_encap crc es pdu fid pt label buf,
   C10_not_padding_encapFrag pdu ctx buf,
   C10_not_padding_encapExt crc es pdu fid pt label buf exts hwf⟩

/-- a complete packet with one optional extension (type 0x0234, two data bytes) -/
example : let ext2 : Ext := ⟨0x0234, .data2, [0xA1, 0xA2]⟩
    (∀ e ∈ [ext2], e.len = PROTOCOL_LEN + e.data.length) ∧
    (encapExt crc0 Enc.new [1, 2, 3] 0 0x0800 lab3 (List.replicate 20 0) [ext2]).res
      = .ok (.completed 14) := by decide +kernel

/-! ### 5. Walking a frame by consumed lengths -/

/-- The receiver loop: call `decap` on the remaining slice and advance by the consumed length until
the slice is empty; stop on a panic or when nothing was consumed.  Returns the outcomes (result,
consumed length) in order and the final decapsulator state. -/
def walk (crc : CrcFn) (mgr : MgrFn) :
    Nat → Dec → Bytes → List (Res DecErr DecStatus × Nat) × Dec
  | 0, ds, _ => ([], ds)
  | fuel + 1, ds, buf =>
    if buf.isEmpty then ([], ds)
    else
      let o := decap crc mgr ds buf
      if o.res = .panic ∨ o.consumed = 0 then ([(o.res, o.consumed)], o.st)
      else
        let r := walk crc mgr fuel o.st (buf.drop o.consumed)
        ((o.res, o.consumed) :: r.1, r.2)

/-- the loop with enough fuel for any frame: every continuing step consumes at least one byte -/
def walkFrame (crc : CrcFn) (mgr : MgrFn) (ds : Dec) (buf : Bytes) :
    List (Res DecErr DecStatus × Nat) × Dec :=
  walk crc mgr (buf.length + 1) ds buf

/-- The reference: each packet decapsulated alone, in order, threading the state. -/
def alone (crc : CrcFn) (mgr : MgrFn) : Dec → List Bytes → List (Res DecErr DecStatus × Nat) × Dec
  | ds, [] => ([], ds)
  | ds, p :: ps =>
    let o := decap crc mgr ds p
    let r := alone crc mgr o.st ps
    ((o.res, o.consumed) :: r.1, r.2)

/-- the result `r` of decapsulating the packet `p` alone is not one with which the code drops the
rest of the frame (and not a panic) -/
def NoDrop (mgr : MgrFn) (p : Bytes) : Res DecErr DecStatus → Prop
  | .err e => ¬ DropErr mgr p e
  | .ok _ => True
  | .panic => False

/-- every element is a packet and, decapsulated alone in its turn, is not answered by dropping the
rest of the frame -/
def Walkable (crc : CrcFn) (mgr : MgrFn) : Dec → List Bytes → Prop
  | _, [] => True
  | ds, p :: ps =>
    pktLenOf p = some p.length ∧ NoDrop mgr p (decap crc mgr ds p).res ∧
      Walkable crc mgr (decap crc mgr ds p).st ps

/-- the simpler sufficient condition of the property text: no panic and none of the four
frame-level errors -/
def WalkableF (crc : CrcFn) (mgr : MgrFn) : Dec → List Bytes → Prop
  | _, [] => True
  | ds, p :: ps =>
    pktLenOf p = some p.length ∧ (decap crc mgr ds p).res ≠ .panic ∧
      ¬ FrameErr (decap crc mgr ds p).res ∧ WalkableF crc mgr (decap crc mgr ds p).st ps

instance (crc : CrcFn) (mgr : MgrFn) : (ds : Dec) → (ps : List Bytes) →
    Decidable (WalkableF crc mgr ds ps)
  | _, [] => isTrue trivial
  | ds, p :: ps =>
    have := instDecidableWalkableF crc mgr (decap crc mgr ds p).st ps
    inferInstanceAs (Decidable (pktLenOf p = some p.length ∧ (decap crc mgr ds p).res ≠ .panic ∧
      ¬ FrameErr (decap crc mgr ds p).res ∧ WalkableF crc mgr (decap crc mgr ds p).st ps))

theorem NoDrop_of_not_frameErr {mgr : MgrFn} {p : Bytes} {r : Res DecErr DecStatus}
    (hp : r ≠ .panic) (hf : ¬ FrameErr r) : NoDrop mgr p r := by
  cases r with
  | ok _ => trivial
  | err e => exact fun hd => hf hd.frameErr
  | panic => exact hp rfl

theorem Walkable_of_F {crc : CrcFn} {mgr : MgrFn} : ∀ {ds : Dec} {ps : List Bytes},
    WalkableF crc mgr ds ps → Walkable crc mgr ds ps
  | _, [], _ => trivial
  | _, _ :: _, ⟨h1, h2, h3, h4⟩ => ⟨h1, NoDrop_of_not_frameErr h2 h3, Walkable_of_F h4⟩

/-- what the zero padding behind the packets yields: nothing for no byte, `ErrorSizeBuffer` for a
single byte, a padding status consuming all of it for two or more; the remembered label is
forgotten in the last two cases -/
def padTail (ds : Dec) (m : Nat) : List (Res DecErr DecStatus × Nat) × Dec :=
  if m = 0 then ([], ds)
  else if m = 1 then ([(.err .sizeBuffer, 1)], ⟨ds.mem, none⟩)
  else ([(.ok .padding, m)], ⟨ds.mem, none⟩)

theorem walk_nil (crc : CrcFn) (mgr : MgrFn) (fuel : Nat) (ds : Dec) :
    walk crc mgr fuel ds [] = ([], ds) := by
  cases fuel <;> simp [walk]

/-- one step: a packet that is not answered by dropping the frame is decapsulated in front of any
`rest` exactly as alone, consuming its own length -/
theorem decap_append_eq (crc : CrcFn) (mgr : MgrFn) (ds : Dec) (p rest : Bytes)
    (h : pktLenOf p = some p.length) (hn : NoDrop mgr p (decap crc mgr ds p).res) :
    decap crc mgr ds (p ++ rest) = decap crc mgr ds p ∧
      (decap crc mgr ds p).consumed = p.length ∧ (decap crc mgr ds p).res ≠ .panic := by
  have key := decap_append crc mgr ds p rest h
  dsimp only at key
  rcases hO : decap crc mgr ds (p ++ rest) with ⟨r1, c1, s1⟩
  rcases hO' : decap crc mgr ds p with ⟨r2, c2, s2⟩
  rw [hO, hO'] at key
  rw [hO'] at hn
  simp only at key hn
  obtain ⟨rfl, rfl, ⟨hp, rfl, rfl⟩ | ⟨⟨e, he, rfl⟩, _⟩ | ⟨rfl, _⟩⟩ := key
  · exact ⟨rfl, rfl, hp⟩
  · exact absurd he hn
  · exact hn.elim

theorem walk_padding (crc : CrcFn) (mgr : MgrFn) (fuel : Nat) (ds : Dec) (m : Nat)
    (hf : 1 ≤ fuel) : walk crc mgr fuel ds (List.replicate m 0) = padTail ds m := by
  obtain ⟨f, rfl⟩ : ∃ f, fuel = f + 1 := ⟨fuel - 1, by omega⟩
  match m with
  | 0 => simp [walk, padTail]
  | 1 =>
    simp only [walk, List.replicate_one, List.isEmpty_cons, Bool.false_eq_true, if_false,
      C10_padding_one, padTail]
    simp [walk_nil]
  | k + 2 =>
    have hd := C10_padding_zeros crc mgr ds (k + 2) (by omega)
    have hne : (List.replicate (k + 2) (0 : UInt8)).isEmpty = false := by
      simp [List.replicate_succ]
    simp only [walk, hne, Bool.false_eq_true, if_false, hd, padTail]
    simp [walk_nil]

/-- **C10_walk.**  A frame made of packets `p₁ … p_k` laid back to back and `m` zero bytes, each
packet being one that — decapsulated alone, in its turn — is not answered by dropping the rest of
the frame: the walker's outcomes are exactly those of `decap` on `p₁`, then on `p₂` in the
resulting state, …, each consuming `p_i.length`; then nothing if `m = 0`, `(ErrorSizeBuffer, 1)` if
`m = 1`, and `(padding, m)` if `m ≥ 2`.  The final state is that of the packets alone, with the
remembered label forgotten when `m ≥ 1`. -/
theorem C10_walk (crc : CrcFn) (mgr : MgrFn) (m : Nat) :
    ∀ (ps : List Bytes) (ds : Dec) (fuel : Nat), ps.length + 1 ≤ fuel → Walkable crc mgr ds ps →
      walk crc mgr fuel ds (ps.flatten ++ List.replicate m 0) =
        ((alone crc mgr ds ps).1 ++ (padTail (alone crc mgr ds ps).2 m).1,
         (padTail (alone crc mgr ds ps).2 m).2) ∧
      (alone crc mgr ds ps).1.map Prod.snd = ps.map List.length
  | [], ds, fuel, hf, _ => by
    simp only [List.flatten_nil, List.nil_append, alone, List.map_nil, and_true]
    exact walk_padding crc mgr fuel ds m (by simpa using hf)
  | p :: ps, ds, fuel, hf, ⟨hp, hn, hw⟩ => by
    obtain ⟨f, rfl⟩ : ∃ f, fuel = f + 1 := ⟨fuel - 1, by simp at hf; omega⟩
    have h2 := pktLenOf_ge_two hp
    obtain ⟨he, hc, hnp⟩ :=
      decap_append_eq crc mgr ds p (ps.flatten ++ List.replicate m 0) hp hn
    obtain ⟨ih1, ih2⟩ := C10_walk crc mgr m ps (decap crc mgr ds p).st f
      (by simp at hf; omega) hw
    have hne : (p ++ (ps.flatten ++ List.replicate m 0)).isEmpty = false := by
      cases p with
      | nil => simp at h2
      | cons x t => rfl
    refine ⟨?_, ?_⟩
    · simp only [List.flatten_cons, List.append_assoc, walk, hne, Bool.false_eq_true, if_false, he]
      rw [if_neg (by rw [hc]; simp only [hnp, false_or]; omega), hc, List.drop_left, ih1]
      simp only [alone, List.cons_append, hc]
    · simp only [alone, List.map_cons, ih2, hc]

/-- the same under the simpler condition: no packet is answered, alone in its turn, with a panic or
one of the four frame-level errors -/
theorem C10_walk_frameErr (crc : CrcFn) (mgr : MgrFn) (m : Nat) (ps : List Bytes) (ds : Dec)
    (fuel : Nat) (hf : ps.length + 1 ≤ fuel) (hw : WalkableF crc mgr ds ps) :
    walk crc mgr fuel ds (ps.flatten ++ List.replicate m 0) =
      ((alone crc mgr ds ps).1 ++ (padTail (alone crc mgr ds ps).2 m).1,
       (padTail (alone crc mgr ds ps).2 m).2) ∧
    (alone crc mgr ds ps).1.map Prod.snd = ps.map List.length :=
  C10_walk crc mgr m ps ds fuel hf (Walkable_of_F hw)

/-- the frame of the fixtures: the two packets and three padding bytes -/
example : [pktA, pktB].flatten ++ List.replicate 3 0 = frame ∧
    WalkableF crc0 simpleMgr ds0 [pktA, pktB] := by decide +kernel

/-- … is walked as: the first PDU under its label, the second PDU under the re-used label, then
padding consuming the last three bytes -/
example : (walkFrame crc0 simpleMgr ds0 frame).1 =
    [(.ok (.completed ⟨0, [1, 2, 3] ++ List.replicate 13 0⟩ ⟨3, 0x0800, lab3, []⟩), 10),
     (.ok (.completed ⟨1, [4, 5] ++ List.replicate 14 0⟩ ⟨2, 0x0800, lab3, []⟩), 6),
     (.ok .padding, 3)] ∧
    (alone crc0 simpleMgr ds0 [pktA, pktB]).1 =
    [(.ok (.completed ⟨0, [1, 2, 3] ++ List.replicate 13 0⟩ ⟨3, 0x0800, lab3, []⟩), 10),
     (.ok (.completed ⟨1, [4, 5] ++ List.replicate 14 0⟩ ⟨2, 0x0800, lab3, []⟩), 6)] := by
  decide +kernel

/-- a rejected packet in the middle (end packet of an unknown fragment) is skipped by its length -/
example : WalkableF crc0 simpleMgr ds0 [pktA, pktEnd, pktB] ∧
    (walkFrame crc0 simpleMgr ds0 (pktA ++ pktEnd ++ pktB ++ [0])).1.map
        (fun o => (match o.1 with | .ok _ => 0 | .err _ => 1 | .panic => 2, o.2)) =
      [(0, 10), (1, 8), (0, 6), (1, 1)] := by decide +kernel

/-- a frame-level error is not walkable: the walker loses the packet behind it -/
example : ¬ WalkableF crc0 simpleMgr ds0 [pktShortExt, pktA] ∧
    (walkFrame crc0 simpleMgr ds0 (pktShortExt ++ pktA)).1 = [(.err .sizePduBuffer, 14)] := by
  decide +kernel

/-- `ErrorSizePduBuffer` from the storage check is a frame-level error by its name, but does not
drop the frame: `Walkable` holds where `WalkableF` does not, and the packet behind is delivered -/
example : Walkable crc0 simpleMgr ds0 [pktBig, pktA] ∧ ¬ WalkableF crc0 simpleMgr ds0 [pktBig, pktA] ∧
    (walkFrame crc0 simpleMgr ds0 (pktBig ++ pktA ++ [0, 0])).1.map Prod.snd = [24, 10, 2] := by
  refine ⟨⟨by decide +kernel, ?_, Walkable_of_F (by decide +kernel)⟩, by decide +kernel,
    by decide +kernel⟩
  have hr : (decap crc0 simpleMgr ds0 pktBig).res = .err .sizePduBuffer := by decide +kernel
  have hw : extWalkOf simpleMgr pktBig = none := by decide +kernel
  rw [hr]
  intro hd
  rw [dropErr_sizePduBuffer hd] at hw
  cases hw

/-- every packet has at least two bytes, so `walkFrame` has enough fuel -/
theorem flatten_length_ge (crc : CrcFn) (mgr : MgrFn) : ∀ (ds : Dec) (ps : List Bytes),
    Walkable crc mgr ds ps → 2 * ps.length ≤ ps.flatten.length
  | _, [], _ => by simp
  | _, p :: ps, ⟨hp, _, hw⟩ => by
    have := pktLenOf_ge_two hp
    have := flatten_length_ge crc mgr _ ps hw
    simp only [List.length_cons, List.flatten_cons, List.length_append]
    omega

/-- **C10_walk** for the loop with its own fuel. -/
theorem C10_walkFrame (crc : CrcFn) (mgr : MgrFn) (m : Nat) (ps : List Bytes) (ds : Dec)
    (hw : Walkable crc mgr ds ps) :
    walkFrame crc mgr ds (ps.flatten ++ List.replicate m 0) =
      ((alone crc mgr ds ps).1 ++ (padTail (alone crc mgr ds ps).2 m).1,
       (padTail (alone crc mgr ds ps).2 m).2) ∧
    (alone crc mgr ds ps).1.map Prod.snd = ps.map List.length := by
  have := flatten_length_ge crc mgr ds ps hw
  exact C10_walk crc mgr m ps ds _ (by simp only [List.length_append]; omega) hw

/-- the three cases of the padding tail, spelled out -/
theorem C10_walk_tail (ds : Dec) (m : Nat) :
    (m = 0 → padTail ds m = ([], ds)) ∧
    (m = 1 → padTail ds m = ([(.err .sizeBuffer, 1)], ⟨ds.mem, none⟩)) ∧
    (2 ≤ m → padTail ds m = ([(.ok .padding, m)], ⟨ds.mem, none⟩)) := by
  refine ⟨?_, ?_, ?_⟩ <;> intro h <;> unfold padTail
  · rw [if_pos h]
  · rw [if_neg (by omega), if_pos h]
  · rw [if_neg (by omega), if_neg (by omega)]

example : padTail ds0 0 = ([], ds0) ∧ padTail ds0 1 = ([(.err .sizeBuffer, 1)], ⟨ds0.mem, none⟩) ∧
    padTail ds0 3 = ([(.ok .padding, 3)], ⟨ds0.mem, none⟩) := by decide +kernel

#print axioms C10_prefix
#print axioms C10_prefix_take
#print axioms C10_len_of_not_frameErr
#print axioms C10_reject_len
#print axioms C10_reject_len_memory
#print axioms C10_reject_len_sizePduBuffer
#print axioms C10_reject_len_totalLength
#print axioms C10_padding
#print axioms C10_padding_bytes
#print axioms C10_padding_zeros
#print axioms C10_padding_one
#print axioms C10_not_padding_encap
#print axioms C10_not_padding_encapFrag
#print axioms C10_not_padding_encapExt
#print axioms C10_not_padding
#print axioms C10_walk
#print axioms C10_walk_frameErr
#print axioms C10_walkFrame
#print axioms C10_walk_tail

end Gse
