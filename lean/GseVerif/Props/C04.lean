/-
Property C04 — "Label re-use never attributes a PDU to a label the sender did not intend".

Part A (receiver only, any bytes).  `seen buf` (Lemmas/LabelSync.lean) reads off the first bytes
of a buffer what it shows about labels: `addr l` (start/complete packet carrying the non-zero 3- or
6-byte label `l`, GSE length covering it), `bcast`, `reuse` (start/complete packet with that label
type), `cont` (intermediate/end packet), `bad` (anything else: too short, padding, truncated,
all-zero label).  `rxLabel ops` replays the operations alone (`decap buf`, `reset`, `provision`,
`new_pdu`): the label carried by the nearest preceding start/complete packet since the last reset
(`none` after a broadcast packet, after a `bad` buffer, after a reset).  Then in every state
reachable from a state with an empty label memory, for every CRC calculator and extension manager:
the label memory holds exactly `rxLabel` or nothing (`C04_receiver_only`), every accepted
start/complete packet reports the label it carries, resp. for label type re-use exactly `rxLabel`
(`Reports`), the memory never holds a broadcast / re-use label (`C04_last_is_addr`), and the error
variants `LabelBroadcastSaved` / `LabelReUseSaved` are never returned (`C04_dead_errors`).

Part B (sender and receiver together).  `Sys` / `JOp` / `jstep` (Lemmas/LabelSync.lean): every
step runs an `encap` / `encap_ext` / `encap_frag` call with arbitrary arguments and hands the
reported bytes to `decap` iff the call returned `Ok`; or a sender setter; or a reset on both sides
or on one side; or `provision_storage` on the receiver.  `LabelSync sys` — "if the sender would
substitute a re-use marker for `l`, the receiver remembers `l` or nothing" — holds initially and
is preserved by every step (`C04_sync`), so every delivered PDU carries the label passed, resp.
for an explicitly passed re-use label the label the receiver remembers (`C04_attribution`), and a
complete packet with an explicit or broadcast label is delivered when a storage is available and
no earlier packet was lost (`C04_delivery`).

The only side condition on arguments: the extensions passed to `encap_ext` satisfy the length
invariant of their Rust type (`JOp.WF`; the model's `Ext` does not enforce it by typing).
-/
import GseVerif.Lemmas.LabelSync
import GseVerif.Props.C01
import GseVerif.Props.C13

namespace Gse
open Gen

/-! Fixtures for the `example`s. -/
namespace C04
def crc0 : CrcFn := fun _ _ _ _ => 0xDEADBEEF
def labA : Label := .three 1 2 3
def labB : Label := .three 4 5 6
def lab6 : Label := .six 9 8 7 6 5 4
def sto (i : Nat) : Storage := ⟨i, List.replicate 8 0⟩
def buf20 : Bytes := List.replicate 20 0xEE
def buf3 : Bytes := List.replicate 3 0xEE
/-- a fresh encapsulator and a 2-slot decapsulator with four free 8-byte storages -/
def sys0 : Sys :=
  jrun crc0 simpleMgr ⟨Enc.new, Dec.new 2 8⟩
    [.provision (sto 1), .provision (sto 2), .provision (sto 3), .provision (sto 4)]
/-- the receiver of `sys0` -/
def ds0 : Dec := sys0.ds
def sendA (pdu : Bytes) : JOp := .send pdu 0 0x0800 labA buf20
def sendB (pdu : Bytes) : JOp := .send pdu 0 0x0800 labB buf20
end C04
open C04

/-! ## Part A — the receiver alone -/

/-- One `decap` call on any buffer in any state satisfying the memory invariant: the new label
memory is empty or `rxStep` of the old one, and an accepted packet reports what `Reports` says. -/
theorem C04_receiver_step (crc : CrcFn) (mgr : MgrFn) (ds : Dec) (buf : Bytes) (h : ds.Inv) :
    ((decap crc mgr ds buf).st.last = none ∨
      (decap crc mgr ds buf).st.last = rxStep ds.last (seen buf)) ∧
    ∀ x, (decap crc mgr ds buf).res = .ok x → Reports ds.last (seen buf) x :=
  (decap_seen_inv crc mgr ds buf h).step

example : seen (completePkt labA 0x0800 [1, 2]) = .addr labA ∧
    seen (completePkt .reuse 0x0800 [1, 2]) = .reuse ∧
    seen (firstPkt .broadcast 1 9 0x0800 [1, 2]) = .bcast ∧
    seen (interPkt 1 [3]) = .cont ∧ seen [0x00, 0x00, 0x00] = .bad ∧
    seen (completePkt zeroLabel 0x0800 [1]) = .bad ∧
    seen ((completePkt labA 0x0800 [1, 2]).take 5) = .bad := by decide +kernel

/-- **C04, receiver only.**  After any history of public operations from a state with an empty
label memory: the memory is empty or holds exactly the label carried by the nearest preceding
start/complete packet (`rxLabel`, computed from the operations alone), and whatever buffer is fed
next, an accepted start/complete packet reports the label it carries; with label type re-use it
reports exactly `rxLabel`. -/
theorem C04_receiver_only (crc : CrcFn) (mgr : MgrFn) (ds0 : Dec) (h0 : ds0.Inv)
    (hl : ds0.last = none) (ops : List DecOp) :
    ((ds0.run crc mgr ops).last = none ∨ (ds0.run crc mgr ops).last = rxLabel ops) ∧
    ∀ buf x, (decap crc mgr (ds0.run crc mgr ops) buf).res = .ok x →
      Reports (rxLabel ops) (seen buf) x := by
  have hI : RxInv (ds0.run crc mgr ops) (rxLabel ops) :=
    RxInv.run crc mgr ⟨h0, .inl hl, fun l h => by rw [hl] at h; cases h⟩ ops
  refine ⟨hI.last, fun buf x hx => ?_⟩
  have hr := (C04_receiver_step crc mgr _ buf hI.inv).2 x hx
  cases hs : seen buf <;> rw [hs] at hr <;> simp only [Reports] at hr ⊢ <;> try exact hr
  obtain ⟨l, h1, h2⟩ := hr
  refine ⟨l, ?_, h2⟩
  rcases hI.last with h | h
  · rw [h] at h1; cases h1
  · rw [← h]; exact h1

/-- A, then a re-use packet (resolved to A), then garbage (forgotten), then a re-use packet
(refused), then B, a broadcast packet (forgotten), and a re-use first fragment (refused). -/
example :
    let ops : List DecOp :=
      [.decap (completePkt labA 0x0800 [1, 2]), .decap (completePkt .reuse 0x0800 [3])]
    rxLabel ops = some labA ∧ (ds0.run crc0 simpleMgr ops).last = some labA ∧
    (decap crc0 simpleMgr (ds0.run crc0 simpleMgr ops) (completePkt .reuse 0x0800 [4])).res
      = .ok (.completed ⟨2, [4, 0, 0, 0, 0, 0, 0, 0]⟩ ⟨1, 0x0800, labA, []⟩) ∧
    rxLabel (ops ++ [.decap [0xFF]]) = none ∧
    (decap crc0 simpleMgr (ds0.run crc0 simpleMgr (ops ++ [.decap [0xFF]]))
      (completePkt .reuse 0x0800 [4])).res = .err .noLabelSaved ∧
    rxLabel (ops ++ [.decap [0xFF], .decap (completePkt labB 0x0800 [5])]) = some labB ∧
    rxLabel (ops ++ [.decap (completePkt .broadcast 0x0800 [5])]) = none ∧
    (decap crc0 simpleMgr (ds0.run crc0 simpleMgr (ops ++ [.decap (completePkt .broadcast 0x0800 [5])]))
      (firstPkt .reuse 1 9 0x0800 [4])).res = .err .noLabelSaved := by decide +kernel
/-- the hypotheses of `C04_receiver_only` hold for that receiver -/
example := C04_receiver_only crc0 simpleMgr ds0 (LabelSync.run crc0 simpleMgr (.init 2 8) _
  (by decide)).inv rfl
  [.decap (completePkt labA 0x0800 [1, 2]), .decap (completePkt .reuse 0x0800 [3])]

/-- `reset_last_label` empties both the memory and the ghost -/
theorem C04_reset (crc : CrcFn) (mgr : MgrFn) (ds0 : Dec) (ops : List DecOp) :
    rxLabel (ops ++ [.reset]) = none ∧ (ds0.run crc mgr (ops ++ [.reset])).last = none := by
  simp [rxLabel, Dec.run, rxOp, Dec.step]

example : rxLabel [.decap (completePkt labA 0x0800 [1, 2]), .reset] = none :=
  (C04_reset crc0 simpleMgr ds0 [.decap (completePkt labA 0x0800 [1, 2])]).1

/-- **The label memory only ever holds a 3- or 6-byte label**: never `Broadcast`, never `ReUse`. -/
theorem C04_last_is_addr (crc : CrcFn) (mgr : MgrFn) (ds0 : Dec) (h0 : ds0.Inv)
    (hl : ds0.last = none) (ops : List DecOp) (l : Label)
    (h : (ds0.run crc mgr ops).last = some l) :
    l.isAddr = true ∧ l ≠ .broadcast ∧ l ≠ .reuse := by
  have hI : RxInv (ds0.run crc mgr ops) (rxLabel ops) :=
    RxInv.run crc mgr ⟨h0, .inl hl, fun l h => by rw [hl] at h; cases h⟩ ops
  have ha := hI.addr l h
  refine ⟨ha, ?_, ?_⟩ <;> rintro rfl <;> cases ha

example : (ds0.run crc0 simpleMgr [.decap (completePkt labA 0x0800 [1, 2])]).last = some labA := by
  decide +kernel

/-- … so the error variants `LabelBroadcastSaved` and `LabelReUseSaved` are dead: no buffer makes a
reachable decapsulator return them. -/
theorem C04_dead_errors (crc : CrcFn) (mgr : MgrFn) (ds0 : Dec) (h0 : ds0.Inv)
    (hl : ds0.last = none) (ops : List DecOp) (buf : Bytes) :
    (decap crc mgr (ds0.run crc mgr ops) buf).res ≠ .err .labelBroadcastSaved ∧
    (decap crc mgr (ds0.run crc mgr ops) buf).res ≠ .err .labelReUseSaved := by
  constructor <;> intro h <;>
    rcases decap_err_saved h rfl with h' | h' <;>
    have := (C04_last_is_addr crc mgr ds0 h0 hl ops _ h').1 <;> cases this

/-- they are returned only from states the API cannot produce -/
example : (decap crc0 simpleMgr { ds0 with last := some .broadcast }
    (completePkt .reuse 0x0800 [4])).res = .err .labelBroadcastSaved := by decide +kernel

/-! ## Part B — sender and receiver in lock step -/

/-- `LabelSync` holds for a fresh encapsulator and a fresh decapsulator … -/
theorem C04_sync_init (n sz : Nat) : LabelSync ⟨Enc.new, Dec.new n sz⟩ := .init n sz

/-- … is preserved by every step, whatever the arguments and whether the calls succeed or fail
(a failing `encap` restores its label memory — defect D4 —, `disable_re_use_label` clears it —
defect D16) … -/
theorem C04_sync_step (crc : CrcFn) (mgr : MgrFn) (sys : Sys) (h : LabelSync sys) (op : JOp)
    (hwf : op.WF) : LabelSync (jstep crc mgr sys op).1 := h.step crc mgr op hwf

/-- … hence holds after every list of operations. -/
theorem C04_sync (crc : CrcFn) (mgr : MgrFn) (n sz : Nat) (ops : List JOp)
    (hwf : ∀ op ∈ ops, op.WF) : LabelSync (jrun crc mgr ⟨Enc.new, Dec.new n sz⟩ ops) :=
  (LabelSync.init n sz).run crc mgr ops hwf

/-- what the invariant says, spelled out -/
theorem C04_sync_spelled (sys : Sys) (h : LabelSync sys) :
    (∀ l, sys.es.last = some l → sys.ds.last = some l ∨ sys.ds.last = none) ∧
    (sys.es.reUse = false → sys.es.last = none) ∧
    (∀ l, sys.es.last = some l → l.isAddr = true) ∧
    (∀ l, sys.ds.last = some l → l.isAddr = true) ∧ sys.ds.Inv :=
  ⟨h.sync, h.off, h.txAddr, h.rxAddr, h.inv⟩

example : LabelSync sys0 := C04_sync crc0 simpleMgr 2 8 _ (by decide)
/-- A sent, then B fails (3-byte buffer): both sides still remember A, not B -/
example : (jrun crc0 simpleMgr sys0 [sendA [1, 2], .send [3] 0 0x0800 labB buf3]).es.last = some labA ∧
    (jrun crc0 simpleMgr sys0 [sendA [1, 2], .send [3] 0 0x0800 labB buf3]).ds.last = some labA ∧
    (jtrace crc0 simpleMgr sys0 [sendA [1, 2], .send [3] 0 0x0800 labB buf3]).map resLabel
      = [some labA, none] := by decide +kernel
/-- the receiver has forgotten (no storage left for the second A): the sender still remembers A -/
example :
    let sysE : Sys := ⟨Enc.new, Dec.new 2 8⟩
    (jrun crc0 simpleMgr sysE [.provision (sto 1), sendA [1], sendA [2]]).es.last = some labA ∧
    (jrun crc0 simpleMgr sysE [.provision (sto 1), sendA [1], sendA [2]]).ds.last = none ∧
    jtrace crc0 simpleMgr sysE [.provision (sto 1), sendA [1], sendA [2], .provision (sto 2), sendA [3]]
      = [none, some (.ok (.completed ⟨1, [1, 0, 0, 0, 0, 0, 0, 0]⟩ ⟨1, 0x0800, labA, []⟩)),
         some (.err (.memory .storageUnderflow)), none, some (.err .noLabelSaved)] := by
  decide +kernel

/-- **C04, attribution (`encap`).**  In every state satisfying `LabelSync` (every reachable one),
if the call succeeds and the receiver accepts the packet, the label it reports is the label passed
(6- or 3-byte or broadcast), resp. for an explicitly passed re-use label the label the receiver
remembers, i.e. the label of the preceding start/complete packet (Part A). -/
theorem C04_attribution (crc : CrcFn) (mgr : MgrFn) (sys : Sys) (h : LabelSync sys)
    (pdu : Bytes) (fid pt : Nat) (label : Label) (buf : Bytes) (x : DecStatus)
    (hx : (jstep crc mgr sys (.send pdu fid pt label buf)).2 = some (.ok x)) :
    ∃ got, x.label? = some got ∧ (label ≠ .reuse → got = label) ∧
      (label = .reuse → sys.ds.last = some got) := by
  simp only [jstep] at hx
  obtain ⟨st, hst, hy⟩ := feed_snd hx
  have hout := decap_seen_inv crc mgr sys.ds
    ((encap crc sys.es pdu fid pt label buf).buf.take st.wireLen) h.inv
  rw [encap_seen crc sys.es pdu fid pt label buf hst] at hout
  exact attribution_core h.sync hout hy.symm

/-- the same for `encap_ext` -/
theorem C04_attribution_ext (crc : CrcFn) (mgr : MgrFn) (sys : Sys) (h : LabelSync sys)
    (pdu : Bytes) (fid pt : Nat) (label : Label) (buf : Bytes) (exts : List Ext)
    (hwf : ∀ e ∈ exts, e.LenOk) (x : DecStatus)
    (hx : (jstep crc mgr sys (.sendExt pdu fid pt label buf exts)).2 = some (.ok x)) :
    ∃ got, x.label? = some got ∧ (label ≠ .reuse → got = label) ∧
      (label = .reuse → sys.ds.last = some got) := by
  simp only [jstep] at hx
  obtain ⟨st, hst, hy⟩ := feed_snd hx
  have hout := decap_seen_inv crc mgr sys.ds
    ((encapExt crc sys.es pdu fid pt label buf exts).buf.take st.wireLen) h.inv
  rw [encapExt_seen crc sys.es pdu fid pt label buf exts hwf hst] at hout
  exact attribution_core h.sync hout hy.symm

/-- in the words of the property: `Completed(_, md)` / `FragmentedPkt(md)` carry `md.label = label`
for a 6- or 3-byte or broadcast label passed by the caller -/
theorem C04_attribution_md (crc : CrcFn) (mgr : MgrFn) (sys : Sys) (h : LabelSync sys)
    (pdu : Bytes) (fid pt : Nat) (label : Label) (buf : Bytes) (hl : label ≠ .reuse) :
    (∀ s md, (jstep crc mgr sys (.send pdu fid pt label buf)).2 = some (.ok (.completed s md)) →
      md.label = label) ∧
    (∀ md, (jstep crc mgr sys (.send pdu fid pt label buf)).2 = some (.ok (.fragmented md)) →
      md.label = label) := by
  constructor
  · intro s md hx
    obtain ⟨got, h1, h2, -⟩ := C04_attribution crc mgr sys h pdu fid pt label buf _ hx
    cases h1; exact h2 hl
  · intro md hx
    obtain ⟨got, h1, h2, -⟩ := C04_attribution crc mgr sys h pdu fid pt label buf _ hx
    cases h1; exact h2 hl

/-- … along every history from fresh endpoints -/
theorem C04_attribution_reachable (crc : CrcFn) (mgr : MgrFn) (n sz : Nat) (ops : List JOp)
    (hwf : ∀ op ∈ ops, op.WF) (pdu : Bytes) (fid pt : Nat) (label : Label) (buf : Bytes)
    (x : DecStatus)
    (hx : (jstep crc mgr (jrun crc mgr ⟨Enc.new, Dec.new n sz⟩ ops)
      (.send pdu fid pt label buf)).2 = some (.ok x)) :
    ∃ got, x.label? = some got ∧ (label ≠ .reuse → got = label) ∧
      (label = .reuse → (jrun crc mgr ⟨Enc.new, Dec.new n sz⟩ ops).ds.last = some got) :=
  C04_attribution crc mgr _ (C04_sync crc mgr n sz ops hwf) pdu fid pt label buf x hx

/-- D4 scenario: A ok, B fails with a 3-byte buffer, B ok (label in full), B ok (substituted: the
packet has 5 bytes and carries no label) — the receiver reports A, –, B, B -/
example :
    (jtrace crc0 simpleMgr sys0
      [sendA [1, 2], .send [3] 0 0x0800 labB buf3, sendB [3], sendB [4]]).map resLabel
      = [some labA, none, some labB, some labB] ∧
    emittedLabel (jrun crc0 simpleMgr sys0
      [sendA [1, 2], .send [3] 0 0x0800 labB buf3, sendB [3]]).es labB = .reuse := by
  decide +kernel
/-- D16 scenario: A, disable, B, enable, A — the last A is sent in full and reported as A -/
example :
    (jtrace crc0 simpleMgr sys0 [sendA [1], .disable, sendB [2], .enable, sendA [3]]).map resLabel
      = [some labA, none, some labB, none, some labA] ∧
    emittedLabel (jrun crc0 simpleMgr sys0 [sendA [1], .disable, sendB [2], .enable]).es labA
      = labA := by decide +kernel
/-- explicit re-use: resolved to the preceding packet's label; after a reset on both sides it is
refused, not attributed to A -/
example :
    jtrace crc0 simpleMgr sys0
      [sendA [1], .send [2] 0 0x0800 .reuse buf20, .resetBoth, .send [3] 0 0x0800 .reuse buf20]
      = [some (.ok (.completed ⟨4, [1, 0, 0, 0, 0, 0, 0, 0]⟩ ⟨1, 0x0800, labA, []⟩)),
         some (.ok (.completed ⟨3, [2, 0, 0, 0, 0, 0, 0, 0]⟩ ⟨1, 0x0800, labA, []⟩)),
         none, some (.err .noLabelSaved)] := by decide +kernel
/-- a mix with fragments (A fragmented over a 12-byte buffer, continued by `encap_frag`), a
broadcast packet, a maximum of one consecutive re-use, and an `encap_ext` call -/
example :
    (jtrace crc0 simpleMgr sys0
      [.enableMax 1, .send [1, 2, 3, 4, 5, 6] 7 0x0800 labA (List.replicate 12 0),
       .frag [1, 2, 3, 4, 5, 6] ⟨7, 0xDEADBEEF, 2⟩ buf20,
       sendA [9], sendA [8], .send [7] 0 0x0800 .broadcast buf20, .provision (sto 5),
       .sendExt [6] 0 0x0800 lab6 buf20 [⟨0x0201, .data2, [0xAA, 0xBB]⟩]]).map resLabel
      = [none, some labA, some labA, some labA, some labA, some .broadcast, none, some lab6] := by
  decide +kernel

/-- if the receiver has forgotten (its memory is empty) a substituted packet is never accepted -/
theorem C04_forgotten_refused (crc : CrcFn) (mgr : MgrFn) (sys : Sys) (h : LabelSync sys)
    (pdu : Bytes) (fid pt : Nat) (label : Label) (buf : Bytes)
    (hf : sys.ds.last = none) (hsub : emittedLabel sys.es label = .reuse) (x : DecStatus) :
    (jstep crc mgr sys (.send pdu fid pt label buf)).2 ≠ some (.ok x) := by
  intro hx
  simp only [jstep] at hx
  obtain ⟨st, hst, hy⟩ := feed_snd hx
  have hout := decap_seen_inv crc mgr sys.ds
    ((encap crc sys.es pdu fid pt label buf).buf.take st.wireLen) h.inv
  rw [encap_seen crc sys.es pdu fid pt label buf hst, hsub] at hout
  rcases hout with h1 | ⟨l, h1, -⟩
  · exact h1.2 x hy.symm
  · rw [hf] at h1; cases h1

/-- **C04, delivery.**  A complete packet for a 6- or 3-byte or broadcast label, protocol type
`0x600 ≤ pt < 65536`, is delivered with the PDU, its length, protocol type and exactly that label
when the receiver's top free storage can hold the PDU and no earlier packet was lost (if the sender
remembers `label`, so does the receiver); afterwards again nothing is lost. -/
theorem C04_delivery (crc : CrcFn) (mgr : MgrFn) (sys : Sys) (h : LabelSync sys)
    (pdu : Bytes) (fid pt : Nat) (label : Label) (buf : Bytes) (n : Nat) (s : Storage)
    (free : List Storage) (hl : label.isAddr = true ∨ label = .broadcast)
    (hpt : SECOND_RANGE_PTYPE ≤ pt) (hpt2 : pt < 65536)
    (henc : (encap crc sys.es pdu fid pt label buf).res = .ok (.completed n))
    (hs : sys.ds.mem.storages = s :: free) (hcap : pdu.length ≤ s.data.length)
    (hnoloss : sys.es.last = some label → sys.ds.last = some label) :
    (jstep crc mgr sys (.send pdu fid pt label buf)).2 =
      some (.ok (.completed ⟨s.id, pdu ++ s.data.drop pdu.length⟩ ⟨pdu.length, pt, label, []⟩)) ∧
    (∀ l, (jstep crc mgr sys (.send pdu fid pt label buf)).1.es.last = some l →
      (jstep crc mgr sys (.send pdu fid pt label buf)).1.ds.last = some l) := by
  have hne : label ≠ .reuse := by
    rcases hl with hl | rfl
    · rintro rfl; cases hl
    · decide
  have hes : sys.es.last ≠ some .broadcast := fun hb => by cases h.txAddr _ hb
  have hr := C01_resolve sys.es label sys.ds.last hne hes
    (fun hw => hnoloss (written_reuse_last hw hne))
  have hd := C01_roundtrip_eq crc mgr sys.es pdu fid pt label buf n sys.ds s free [] label _
    henc hpt hpt2 hs hcap hr
  rw [List.append_nil] at hd
  simp only [jstep, henc, feed_ok, EncStatus.wireLen, hd, true_and]
  intro l hl'
  rw [encap_ok_state henc] at hl'
  have hlast : (checkLabelReUse sys.es label).2.last = some l →
      (if label = .broadcast then none else some label) = some l := by
    intro hq
    rcases checkLabelReUse_spec sys.es label with ⟨_, hlast, _, heq⟩ | ⟨_, hlast, _, heq⟩ |
      ⟨_, hlast, _, _, heq⟩ | ⟨_, _, heq⟩ | ⟨hu, heq⟩ <;> rw [heq] at hq
    · have : l = label := by rw [hlast] at hq; cases hq; rfl
      subst this
      rw [if_neg (fun hb => by subst hb; cases h.txAddr _ hlast)]
    · have : l = label := by rw [hlast] at hq; cases hq; rfl
      subst this
      rw [if_neg (fun hb => by subst hb; cases h.txAddr _ hlast)]
    · rcases newLast_some hq with ⟨rfl, ha⟩ | ⟨hre, _⟩
      · rw [if_neg (fun hb => by subst hb; cases ha)]
      · exact absurd hre hne
    · rcases newLast_some hq with ⟨rfl, ha⟩ | ⟨hre, _⟩
      · rw [if_neg (fun hb => by subst hb; cases ha)]
      · exact absurd hre hne
    · rw [h.off hu] at hq; cases hq
  exact hlast hl'

/-- **C04, delivery (`encap_ext`).**  The same for a complete packet with extension headers, when
the receiver's manager knows the mandatory extensions of the chain (`Knows`, property C13): the
PDU is delivered with exactly the label passed and exactly the extension list. -/
theorem C04_delivery_ext (crc : CrcFn) (mgr : MgrFn) (sys : Sys) (h : LabelSync sys)
    (pdu : Bytes) (fid pt : Nat) (label : Label) (buf : Bytes) (exts : List Ext) (n : Nat)
    (s : Storage) (free : List Storage) (hl : label.isAddr = true ∨ label = .broadcast)
    (hk : Knows mgr pt exts) (hpt : pt < 65536)
    (henc : (encapExt crc sys.es pdu fid pt label buf exts).res = .ok (.completed n))
    (hs : sys.ds.mem.storages = s :: free) (hcap : pdu.length ≤ s.data.length)
    (hnoloss : sys.es.last = some label → sys.ds.last = some label) :
    (jstep crc mgr sys (.sendExt pdu fid pt label buf exts)).2 =
      some (.ok (.completed ⟨s.id, pdu ++ s.data.drop pdu.length⟩ ⟨pdu.length, pt, label, exts⟩)) := by
  have hne : label ≠ .reuse := by
    rcases hl with hl | rfl
    · rintro rfl; cases hl
    · decide
  have hd := (C13_roundtrip_complete crc sys.es pdu fid pt label buf exts n mgr sys.ds [] s free
    label henc hk hpt hs hcap
    (fun hw => by
      have hlast := written_reuse_last hw hne
      have ha := h.txAddr _ hlast
      refine ⟨hnoloss hlast, ?_⟩
      cases label <;> simp [Label.isAddr, Label.type] at ha ⊢)
    (fun _ => rfl)).1
  rw [List.append_nil] at hd
  simp only [jstep, henc, feed_ok, EncStatus.wireLen, hd]

/-- an `encap_ext` call with one optional extension: delivered with label and extension -/
example :
    jtrace crc0 simpleMgr sys0 [.sendExt [6] 0 0x0800 lab6 buf20 [⟨0x0201, .data2, [0xAA, 0xBB]⟩]]
      = [some (.ok (.completed ⟨4, [6, 0, 0, 0, 0, 0, 0, 0]⟩
          ⟨1, 0x0800, lab6, [⟨0x0201, .data2, [0xAA, 0xBB]⟩]⟩))] := by decide +kernel
example :=
  C04_delivery_ext crc0 simpleMgr sys0 (C04_sync crc0 simpleMgr 2 8 _ (by decide))
    [6] 0 0x0800 lab6 buf20 [⟨0x0201, .data2, [0xAA, 0xBB]⟩] 15 (sto 4) [sto 3, sto 2, sto 1]
    (.inl rfl) (by decide) (by decide) (by decide +kernel) (by decide +kernel) (by decide)
    (fun h => by revert h; decide +kernel)

/-- A delivered, then A again (substituted, delivered with label A), then B -/
example :
    jtrace crc0 simpleMgr sys0 [sendA [1, 2], sendA [3], sendB [4]]
      = [some (.ok (.completed ⟨4, [1, 2, 0, 0, 0, 0, 0, 0]⟩ ⟨2, 0x0800, labA, []⟩)),
         some (.ok (.completed ⟨3, [3, 0, 0, 0, 0, 0, 0, 0]⟩ ⟨1, 0x0800, labA, []⟩)),
         some (.ok (.completed ⟨2, [4, 0, 0, 0, 0, 0, 0, 0]⟩ ⟨1, 0x0800, labB, []⟩))] := by
  decide +kernel
/-- the hypotheses of `C04_delivery` on the second of these sends -/
example :=
  C04_delivery crc0 simpleMgr (jrun crc0 simpleMgr sys0 [sendA [1, 2]])
    ((C04_sync crc0 simpleMgr 2 8 _ (by decide) : LabelSync sys0).run crc0 simpleMgr
      [sendA [1, 2]] (by decide))
    [3] 0 0x0800 labA buf20 5 (sto 3) [sto 2, sto 1] (.inl rfl) (by decide) (by decide)
    (by decide +kernel) (by decide +kernel) (by decide) (fun _ => by decide +kernel)

end Gse

#print axioms Gse.C04_receiver_step
#print axioms Gse.C04_receiver_only
#print axioms Gse.C04_reset
#print axioms Gse.C04_last_is_addr
#print axioms Gse.C04_dead_errors
#print axioms Gse.C04_sync_init
#print axioms Gse.C04_sync_step
#print axioms Gse.C04_sync
#print axioms Gse.C04_sync_spelled
#print axioms Gse.C04_attribution
#print axioms Gse.C04_attribution_ext
#print axioms Gse.C04_attribution_md
#print axioms Gse.C04_attribution_reachable
#print axioms Gse.C04_forgotten_refused
#print axioms Gse.C04_delivery
#print axioms Gse.C04_delivery_ext
