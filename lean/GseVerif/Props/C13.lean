/-
Property C13 — "Extension-header chains round-trip; unknown mandatory extensions cause a drop".

Whenever `encap_ext` returns Ok, a receiver that knows the mandatory extensions used recovers
exactly the same ordered extension list, protocol type, label and PDU, for complete and for
fragmented PDUs, and the reported length is the on-wire length; `encap_ext` never returns Ok for a
combination of extensions and protocol type that it cannot encode decodably.  A packet containing
a mandatory extension unknown to the receiver is rejected as a whole, consuming exactly its own
length.

(The constructor part of the property — `Extension::new` — is in Props/C13new.lean.)

All theorems are for every CRC calculator `crc`, every encapsulator state `es` (any re-use
configuration), every label, every buffer and every PDU.  The chains are arbitrary lists of
well-formed extensions (`Ext.WF`: what `Extension::new` builds — every optional H-LEN class,
mandatory extensions of any data length); what the receiver has to know is `Knows mgr pt exts`
(Lemmas/ExtWalk.lean), what makes it drop the packet is `HasUnknown mgr exts`.

Notation: `wl = (checkLabelReUse es label).1` is the label as written (the requested one or the
re-use marker).  Label memories: `l` is the label the receiver must deliver; when the re-use marker
is on the wire the receiver must remember `l` (C04 discharges this for lock-step histories),
otherwise `l` is the requested label.
-/
import GseVerif.Lemmas.ExtWalk
import GseVerif.Props.C09
import GseVerif.Props.C13new

namespace Gse
open Gen

/-! ### 0. The walker inverts the chain (core of the property) -/

/-- Started with the id of the first extension on the bytes `encap_ext` writes after the label,
`iterate_over_extension_header` returns the same ordered list, the protocol type and exactly the
length of the extension area — independently of the payload behind it. -/
theorem C13_walk (mgr : MgrFn) (pt : Nat) (exts : List Ext) (hne : exts ≠ [])
    (hk : Knows mgr pt exts)
    (hpt : pt < MAX_MANDATORY_VAL_PTYPE ∨ (SECOND_RANGE_PTYPE ≤ pt ∧ pt < 65536)) (payload : Bytes) :
    walkExt mgr (extWire pt exts ++ payload) (exts.head hne).id
      = .ok ⟨exts, pt, (extWire pt exts).length⟩ :=
  walkExt_chain hne hk hpt payload

example : walkExt C13.mgr (extWire 0x81 C13.chain ++ [9, 9, 9]) 0x0101 = .ok ⟨C13.chain, 0x81, 17⟩ :=
  C13_walk C13.mgr 0x81 C13.chain (by decide) (by decide) (by decide) [9, 9, 9]

/-- … and stops with `UnknownMandatoryHeader` at the first mandatory extension the manager does not
know (whatever follows, whatever the protocol type). -/
theorem C13_walk_unknown (mgr : MgrFn) (pt : Nat) (exts : List Ext) (hne : exts ≠ [])
    (hu : HasUnknown mgr exts) (payload : Bytes) :
    walkExt mgr (extWire pt exts ++ payload) (exts.head hne).id = .err .unknownMandatoryHeader :=
  walkExt_unknown hne hu pt payload

example : walkExt simpleMgr (extWire 0x81 C13.chain ++ [9, 9, 9]) 0x0101
    = .err .unknownMandatoryHeader :=
  C13_walk_unknown simpleMgr 0x81 C13.chain (by decide) (by decide) [9, 9, 9]

/-! Fixtures for the `example`s: the chain, the manager and `chainOpt` are in Lemmas/ExtWalk.lean
(`C13.chain`: optional no-data, optional 8 bytes, non-final mandatory 0x42 with 3 bytes, final
mandatory 0x81; `C13.mgr` knows 0x42 and 0x81). -/
namespace C13
def pdu5 : Bytes := [0xD1, 0xD2, 0xD3, 0xD4, 0xD5]
def buf64 : Bytes := List.replicate 64 0xEE
/-- too small for the whole PDU: header 7 + label 6 + extensions 17 leave room for 1 PDU byte -/
def buf31 : Bytes := List.replicate 31 0xEE
/-- a receiver with two slots, one free 16-byte buffer, nothing remembered -/
def ds0 : Dec := ⟨⟨[⟨7, List.replicate 16 0⟩], [none, none], 2, 16, 4⟩, none⟩
/-- a context saved earlier under the aliasing fragment id 3 (slot 1 of 2) -/
def oldCtx : Ctx := ⟨.three 1 2 3, 0x0800, 3, 103, 7, false, []⟩
/-- the same receiver remembering `lab6` -/
def dsL : Dec := { ds0 with last := some C09.lab6 }
end C13
open C13 C09

/-! ### 1. `encap_ext` only encodes what can be decoded (repaired defect D6) -/

/-- `encap_ext` returns Ok only for a non-empty chain and a protocol type that the packet can
carry: a type of the second range (written behind the chain), or a type of the mandatory range
that *is* the id of the last extension, which must be a mandatory one (the final extension takes
the place of the protocol type).  In particular never for `0x100 ≤ pt < 0x600`. -/
theorem C13_encodable (crc : CrcFn) (es : Enc) (pdu : Bytes) (fid pt : Nat) (label : Label)
    (buf : Bytes) (exts : List Ext) (st : EncStatus)
    (h : (encapExt crc es pdu fid pt label buf exts).res = .ok st) :
    exts ≠ [] ∧
    (SECOND_RANGE_PTYPE ≤ pt ∨
      (pt < MAX_MANDATORY_VAL_PTYPE ∧
        ∃ e, exts.getLast? = some e ∧ e.id = pt ∧ e.kind = .mandatory)) := by
  cases hlast : exts.getLast? with
  | none =>
    have : exts = [] := List.getLast?_eq_none_iff.mp hlast
    subst this
    rw [encapExt_nil] at h; cases h
  | some lastExt =>
    by_cases hfm : pt < MAX_MANDATORY_VAL_PTYPE ∧ (lastExt.id ≠ pt ∨ lastExt.kind ≠ .mandatory)
    · rw [encapExt_err_finalMandatory hlast hfm] at h; cases h
    by_cases hpt : MAX_MANDATORY_VAL_PTYPE ≤ pt ∧ pt < SECOND_RANGE_PTYPE
    · rw [encapExt_bad_ptype hlast hpt] at h; cases h
    refine ⟨(by intro he; rw [he] at hlast; cases hlast), ?_⟩
    by_cases hp : pt < MAX_MANDATORY_VAL_PTYPE
    · right
      refine ⟨hp, lastExt, rfl, ?_⟩
      constructor
      · exact Classical.byContradiction fun hc => hfm ⟨hp, Or.inl hc⟩
      · exact Classical.byContradiction fun hc => hfm ⟨hp, Or.inr hc⟩
    · left
      simp only [MAX_MANDATORY_VAL_PTYPE, SECOND_RANGE_PTYPE] at *; omega

/-- the hypothesis is satisfiable, both ways -/
example : (encapExt crc0 Enc.new pdu5 1 0x81 lab6 buf64 chain).res = .ok (.completed 32) := by
  decide +kernel
example : (encapExt crc0 Enc.new pdu5 1 0x0800 lab6 buf64 chainOpt).res = .ok (.completed 32) := by
  decide +kernel
/-- … and the refusals it implies (D6: before the repair the first one returned Ok with the
protocol type never written) -/
example : (encapExt crc0 Enc.new pdu5 1 0x81 lab6 buf64 chainOpt).res
    = .err .finalMandatoryExtensionHeader := by decide +kernel
example : (encapExt crc0 Enc.new pdu5 1 0x42 lab6 buf64 chain).res
    = .err .finalMandatoryExtensionHeader := by decide +kernel
example : (encapExt crc0 Enc.new pdu5 1 0x0234 lab6 buf64 chain).res = .err .protocolType := by
  decide +kernel

/-! ### 2. The reported length is the on-wire length (repaired defect D5) -/

/-- Complete packet: `n` is header + type field + label + extension area + PDU; the first `n`
bytes of the buffer are exactly that packet, whose GSE-length field is `n - 2`; the rest of the
buffer is untouched. -/
theorem C13_length_complete (crc : CrcFn) (es : Enc) (pdu : Bytes) (fid pt : Nat) (label : Label)
    (buf : Bytes) (exts : List Ext) (hwf : ∀ e ∈ exts, e.WF) (n : Nat)
    (h : (encapExt crc es pdu fid pt label buf exts).res = .ok (.completed n)) :
    let wl := (checkLabelReUse es label).1
    let out := (encapExt crc es pdu fid pt label buf exts).buf
    n = FIXED_HEADER_LEN + PROTOCOL_LEN + wl.len + extLen pt exts + pdu.length ∧
    n ≤ buf.length ∧
    out.take n = be16 (genHeader .complete wl.type (n - FIXED_HEADER_LEN))
                   ++ be16 (extFirstId exts) ++ wl.bytes ++ extWire pt exts ++ pdu ∧
    (extWire pt exts).length = extLen pt exts ∧
    out.drop n = buf.drop n ∧ out.length = buf.length := by
  have hok := ExtOk_of_wf hwf
  obtain ⟨hz, hne, hlen, hn, hnb, hbuf⟩ := encapExt_completed_inv hok h
  dsimp only at hlen hn hnb hbuf ⊢
  have hL := extCompletePkt_length (pt := pt) (lbl := (checkLabelReUse es label).1) (pdu := pdu)
    hne hok
  rw [← hn] at hL
  refine ⟨by rw [hn]; gse_omega, hnb, ?_, extWire_length hne hok, ?_, ?_⟩
  · rw [hbuf, List.take_left' hL]
    have : n - FIXED_HEADER_LEN
        = pdu.length + (checkLabelReUse es label).1.len + PROTOCOL_LEN + extLen pt exts := by
      rw [hn]; gse_omega
    rw [this]
    simp only [extCompletePkt, extMiddle_eq_wire, List.append_assoc]
  · rw [hbuf, List.drop_left' hL]
  · rw [hbuf, List.length_append, hL, List.length_drop]; omega

example : ∀ e ∈ chain, e.WF := by decide
example : (encapExt crc0 Enc.new pdu5 1 0x81 lab6 buf64 chain).res = .ok (.completed 32) ∧
    32 = 2 + 2 + 6 + extLen 0x81 chain + 5 := by decide +kernel

/-- First fragment: `n` is the 7 fixed bytes + label + extension area + the `k = ctx.pos` PDU
bytes sent; the first `n` bytes of the buffer are exactly that packet (GSE-length field `n - 2`,
total length = PDU + type field + label, extensions not counted), the rest is untouched.
(D5: before the repair the header counted the extensions twice and `n` omitted them.) -/
theorem C13_length_first (crc : CrcFn) (es : Enc) (pdu : Bytes) (fid pt : Nat) (label : Label)
    (buf : Bytes) (exts : List Ext) (hwf : ∀ e ∈ exts, e.WF) (n : Nat) (ctx : FragCtx)
    (h : (encapExt crc es pdu fid pt label buf exts).res = .ok (.fragmented n ctx)) :
    let wl := (checkLabelReUse es label).1
    let out := (encapExt crc es pdu fid pt label buf exts).buf
    n = FIRST_FRAG_LEN + wl.len + extLen pt exts + ctx.pos ∧
    n ≤ buf.length ∧ ctx.pos < pdu.length ∧ ctx.fragId = fid ∧
    ctx.crc = crc pdu pt (pdu.length + PROTOCOL_LEN + wl.len) wl.bytes ∧
    out.take n = be16 (genHeader .first wl.type (n - FIXED_HEADER_LEN)) ++ [u8 fid]
                   ++ be16 (pdu.length + PROTOCOL_LEN + wl.len)
                   ++ be16 (extFirstId exts) ++ wl.bytes ++ extWire pt exts ++ pdu.take ctx.pos ∧
    out.drop n = buf.drop n ∧ out.length = buf.length := by
  have hok := ExtOk_of_wf hwf
  obtain ⟨hz, hne, hlt, htl, hg, hn, hctx, hnb, hbuf⟩ := encapExt_fragmented_inv hok h
  dsimp only at hlt htl hg hn hctx hnb hbuf ⊢
  generalize (checkLabelReUse es label).1 = wl at *
  generalize firstPayloadLen (wl.len + extLen pt exts) buf.length = k at *
  subst hctx
  have htk : (pdu.take k).length = k := by rw [List.length_take]; omega
  have hL := extFirstPkt_length (pt := pt) (lbl := wl) (fid := fid)
    (tl := pdu.length + PROTOCOL_LEN + wl.len) (payload := pdu.take k) hne hok
  rw [htk, ← hn] at hL
  refine ⟨hn, hnb, hlt, rfl, rfl, ?_, ?_, ?_⟩
  · rw [hbuf, List.take_left' hL]
    have : n - FIXED_HEADER_LEN
        = FRAG_ID_LEN + TOTAL_LENGTH_LEN + PROTOCOL_LEN + wl.len + extLen pt exts + k := by
      rw [hn]; gse_omega
    rw [this]
    simp only [extFirstPkt, extMiddle_eq_wire, List.append_assoc, htk]
  · rw [hbuf, List.drop_left' hL]
  · rw [hbuf, List.length_append, hL, List.length_drop]; omega

example : (encapExt crc0 Enc.new pdu5 1 0x81 lab6 buf31 chain).res
    = .ok (.fragmented 31 ⟨1, 0xDEADBEEF, 1⟩) ∧ 31 = 7 + 6 + extLen 0x81 chain + 1 := by
  decide +kernel

/-! ### 3. Round trip, complete packet -/

/-- If `encap_ext` returns `Completed(n)` and the receiver's manager knows the mandatory extensions
of the chain (`Knows`), then decapsulating the `n` bytes written (followed by anything) delivers
the PDU in the receiver's top free buffer `s`, with metadata: PDU length, the protocol type, the
label `l` and **exactly the extension list**; exactly `n` bytes are consumed; the buffer leaves
the free list and the label memory is updated. -/
theorem C13_roundtrip_complete (crc : CrcFn) (es : Enc) (pdu : Bytes) (fid pt : Nat) (label : Label)
    (buf : Bytes) (exts : List Ext) (n : Nat) (mgr : MgrFn) (ds : Dec) (rest : Bytes)
    (s : Storage) (free : List Storage) (l : Label)
    (hres : (encapExt crc es pdu fid pt label buf exts).res = .ok (.completed n))
    (hk : Knows mgr pt exts) (hpt : pt < 65536)
    (hs : ds.mem.storages = s :: free) (hcap : pdu.length ≤ s.data.length)
    (hsync : (checkLabelReUse es label).1 = .reuse →
      ds.last = some l ∧ (l.type = .six ∨ l.type = .three))
    (hint : (checkLabelReUse es label).1 ≠ .reuse → l = label) :
    decap crc mgr ds ((encapExt crc es pdu fid pt label buf exts).buf.take n ++ rest)
      = ⟨.ok (.completed ⟨s.id, pdu ++ s.data.drop pdu.length⟩ ⟨pdu.length, pt, l, exts⟩), n,
         ⟨{ ds.mem with storages := free },
          if (checkLabelReUse es label).1 = .broadcast then none else some l⟩⟩ ∧
    (pdu ++ s.data.drop pdu.length).take pdu.length = pdu := by
  refine ⟨?_, List.take_left' rfl⟩
  have hok := hk.extOk
  obtain ⟨hne, henc⟩ := C13_encodable crc es pdu fid pt label buf exts _ hres
  have hpt' : pt < MAX_MANDATORY_VAL_PTYPE ∨ (SECOND_RANGE_PTYPE ≤ pt ∧ pt < 65536) := by
    rcases henc with h | h
    · exact Or.inr ⟨h, hpt⟩
    · exact Or.inl h.1
  obtain ⟨hz, -, hlen, hn, hnb, hbuf⟩ := encapExt_completed_inv hok hres
  have hL := extCompletePkt_length (pt := pt) (lbl := (checkLabelReUse es label).1) (pdu := pdu)
    hne hok
  rw [← hn] at hL
  rw [hbuf, List.take_left' hL]
  rw [decap_extCompletePkt crc ds rest (writtenLabel_ne_zero hz) hne hk hpt' hlen hs hcap
    (resolveLabel_sync (writtenLabel_cases es label) hsync hint), hn]

/-- the chain of four with the final mandatory extension 0x81, a receiver that knows 0x42 and 0x81 -/
example : decap crc0 C13.mgr ds0
      ((encapExt crc0 Enc.new pdu5 1 0x81 lab6 buf64 chain).buf.take 32 ++ [0xAA, 0xBB])
    = ⟨.ok (.completed ⟨7, pdu5 ++ List.replicate 11 0⟩ ⟨5, 0x81, lab6, chain⟩), 32,
       ⟨{ ds0.mem with storages := [] }, some lab6⟩⟩ :=
  (C13_roundtrip_complete crc0 Enc.new pdu5 1 0x81 lab6 buf64 chain 32 C13.mgr ds0 [0xAA, 0xBB]
    ⟨7, List.replicate 16 0⟩ [] lab6 (by decide +kernel) (by decide) (by decide) rfl (by decide)
    (by decide) (by decide)).1
/-- protocol type of the second range behind three extensions; the label is re-used -/
example : (checkLabelReUse esSent lab6).1 = .reuse ∧
    decap crc0 C13.mgr dsL
      ((encapExt crc0 esSent pdu5 1 0x0800 lab6 buf64 chainOpt).buf.take 26 ++ [])
    = ⟨.ok (.completed ⟨7, pdu5 ++ List.replicate 11 0⟩ ⟨5, 0x0800, lab6, chainOpt⟩), 26,
       ⟨{ ds0.mem with storages := [] }, some lab6⟩⟩ :=
  ⟨by decide, (C13_roundtrip_complete crc0 esSent pdu5 1 0x0800 lab6 buf64 chainOpt 26 C13.mgr dsL []
    ⟨7, List.replicate 16 0⟩ [] lab6 (by decide +kernel) (by decide) (by decide) rfl (by decide)
    (by decide) (by decide)).1⟩

/-! ### 4. Round trip, first fragment (the continuation does not depend on extensions) -/

/-- If `encap_ext` returns `Fragmented(n, ctx)` then decapsulating the `n` bytes written, by a
receiver that knows the mandatory extensions and whose slot `fid % max_frag_id` is free (a free
buffer `s` being available) or occupied (its buffer `s` is reused), with `s` able to hold the
`ctx.pos` PDU bytes of this fragment, reports `FragmentedPkt` with protocol type, label and
**exactly the extension list**, consumes `n`, and saves under the fragment id the context
`⟨l, pt, fid, |pdu| + 2 + |wl|, ctx.pos, wl is re-use, exts⟩` with the first `ctx.pos` PDU bytes
in `s`.  That is the state the no-extension first fragment leaves (plus `exts`), so `encap_frag`'s
continuation packets, which do not depend on extensions, reassemble it as in C02. -/
theorem C13_roundtrip_first (crc : CrcFn) (es : Enc) (pdu : Bytes) (fid pt : Nat) (label : Label)
    (buf : Bytes) (exts : List Ext) (n : Nat) (ctx : FragCtx) (mgr : MgrFn) (ds : Dec) (rest : Bytes)
    (s : Storage) (free : List Storage) (l : Label)
    (hres : (encapExt crc es pdu fid pt label buf exts).res = .ok (.fragmented n ctx))
    (hk : Knows mgr pt exts) (hpt : pt < 65536) (hfid : fid < 256)
    (h0 : ds.mem.maxFragId ≠ 0)
    (hslot : (ds.mem.frags[fid % ds.mem.maxFragId]? = some none ∧ ds.mem.storages = s :: free) ∨
      (∃ c0, ds.mem.frags[fid % ds.mem.maxFragId]? = some (some (c0, s)) ∧ ds.mem.storages = free))
    (hcap : ctx.pos ≤ s.data.length)
    (hsync : (checkLabelReUse es label).1 = .reuse →
      ds.last = some l ∧ (l.type = .six ∨ l.type = .three))
    (hint : (checkLabelReUse es label).1 ≠ .reuse → l = label) :
    decap crc mgr ds ((encapExt crc es pdu fid pt label buf exts).buf.take n ++ rest)
      = ⟨.ok (.fragmented ⟨0, pt, l, exts⟩), n,
         ⟨{ ds.mem with
              storages := free,
              frags := ds.mem.frags.set (fid % ds.mem.maxFragId)
                (some (⟨l, pt, fid, pdu.length + PROTOCOL_LEN + (checkLabelReUse es label).1.len,
                        ctx.pos, (checkLabelReUse es label).1.type == .reuse, exts⟩,
                       ⟨s.id, pdu.take ctx.pos ++ s.data.drop ctx.pos⟩)) },
          if (checkLabelReUse es label).1 = .broadcast then none else some l⟩⟩ ∧
    ctx.pos < pdu.length ∧ ctx.fragId = fid := by
  have hok := hk.extOk
  obtain ⟨hne, henc⟩ := C13_encodable crc es pdu fid pt label buf exts _ hres
  have hpt' : pt < MAX_MANDATORY_VAL_PTYPE ∨ (SECOND_RANGE_PTYPE ≤ pt ∧ pt < 65536) := by
    rcases henc with h | h
    · exact Or.inr ⟨h, hpt⟩
    · exact Or.inl h.1
  obtain ⟨hz, -, hlt, htl, hg, hn, hctx, hnb, hbuf⟩ := encapExt_fragmented_inv hok hres
  have hwz := writtenLabel_ne_zero (es := es) hz
  have hrl := resolveLabel_sync (writtenLabel_cases es label) hsync hint
  generalize (checkLabelReUse es label).1 = wl at *
  generalize firstPayloadLen (wl.len + extLen pt exts) buf.length = k at *
  subst hctx
  refine ⟨?_, hlt, rfl⟩
  have htk : (pdu.take k).length = k := by rw [List.length_take]; omega
  have hL := extFirstPkt_length (pt := pt) (lbl := wl) (fid := fid)
    (tl := pdu.length + PROTOCOL_LEN + wl.len) (payload := pdu.take k) hne hok
  rw [htk, ← hn] at hL
  rw [hbuf, List.take_left' hL]
  have := decap_extFirstPkt crc ds rest (fid := fid) (tl := pdu.length + PROTOCOL_LEN + wl.len)
    (payload := pdu.take k) hwz hne hk hpt' (by rw [htk]; exact hg) hfid (by gse_omega)
    (by rw [htk]; omega) h0 hslot (by rw [htk]; exact hcap) hrl
  rw [htk] at this
  rw [this, hn]

/-- free slot: the buffer comes from the free list -/
example : decap crc0 C13.mgr ds0
      ((encapExt crc0 Enc.new pdu5 1 0x81 lab6 buf31 chain).buf.take 31 ++ [0xAA])
    = ⟨.ok (.fragmented ⟨0, 0x81, lab6, chain⟩), 31,
       ⟨{ ds0.mem with
            storages := [],
            frags := [none, some (⟨lab6, 0x81, 1, 13, 1, false, chain⟩,
                                  ⟨7, [0xD1] ++ List.replicate 15 0⟩)] },
        some lab6⟩⟩ :=
  (C13_roundtrip_first crc0 Enc.new pdu5 1 0x81 lab6 buf31 chain 31 ⟨1, 0xDEADBEEF, 1⟩ C13.mgr ds0
    [0xAA] ⟨7, List.replicate 16 0⟩ [] lab6 (by decide +kernel) (by decide) (by decide) (by decide)
    (by decide) (Or.inl (by decide)) (by decide) (by decide) (by decide)).1

/-- occupied slot: the buffer of the replaced context is reused, the free list is not touched -/
example : decap crc0 C13.mgr
      ⟨{ ds0.mem with frags := [none, some (C13.oldCtx, ⟨9, List.replicate 16 1⟩)] }, none⟩
      ((encapExt crc0 Enc.new pdu5 1 0x81 lab6 buf31 chain).buf.take 31 ++ [0xAA])
    = ⟨.ok (.fragmented ⟨0, 0x81, lab6, chain⟩), 31,
       ⟨{ ds0.mem with
            frags := [none, some (⟨lab6, 0x81, 1, 13, 1, false, chain⟩,
                                  ⟨9, [0xD1] ++ List.replicate 15 1⟩)] },
        some lab6⟩⟩ :=
  (C13_roundtrip_first crc0 Enc.new pdu5 1 0x81 lab6 buf31 chain 31 ⟨1, 0xDEADBEEF, 1⟩ C13.mgr _
    [0xAA] ⟨9, List.replicate 16 1⟩ _ lab6 (by decide +kernel) (by decide) (by decide) (by decide)
    (by decide) (Or.inr ⟨C13.oldCtx, by decide⟩) (by decide) (by decide) (by decide)).1

/-- The continuation: intermediate fragments keep the extension list of the saved context … -/
theorem C13_inter_keeps_exts (ds : Dec) (buf : Bytes) (pktLen gseLen : Nat) (md : Meta) (c : Nat)
    (ds' : Dec) (h : decapInter ds buf pktLen gseLen = ⟨.ok (.fragmented md), c, ds'⟩) :
    ∃ fragId ctx s m1 s',
      get8 buf FIXED_HEADER_LEN = some fragId ∧ ds.mem.takeFrag fragId = (.ok (ctx, s), m1) ∧
      md.exts = ctx.exts ∧ md.pt = ctx.pt ∧ md.label = ctx.label ∧
      m1.saveFrag ({ ctx with pduLen := ctx.pduLen + (gseLen - FRAG_ID_LEN) }, s') = (.ok (), ds'.mem) := by
  unfold decapInter at h
  simp only [] at h
  split at h
  · simp [Dec.fail] at h
  split at h
  · simp at h
  rename_i fragId hg
  split at h
  · simp at h
  · simp at h
  rename_i ctx s m1 htf
  split at h
  · exact absurd (congrArg DecOut.res h) (giveBack_ne_ok _ _ _ _ _ _)
  split at h
  · simp at h
  split at h
  · exact absurd (congrArg DecOut.res h) (giveBack_ne_ok _ _ _ _ _ _)
  split at h
  · simp at h
  rename_i data hd
  split at h
  · rename_i m2 hsv
    simp only [DecOut.mk.injEq, Res.ok.injEq, DecStatus.fragmented.injEq] at h
    obtain ⟨hmd, -, hds⟩ := h
    subst hmd hds
    exact ⟨fragId, ctx, s, m1, _, hg, htf, rfl, rfl, rfl, hsv⟩
  · simp at h
  · simp at h

/-- … and the end packet delivers it with the completed PDU: whenever `decap_end` returns
`CompletedPkt`, its metadata carry the extension list (and protocol type and label) of the context
saved under the fragment id. -/
theorem C13_end_delivers_exts (crc : CrcFn) (ds : Dec) (buf : Bytes) (pktLen gseLen : Nat)
    (st : Storage) (md : Meta) (c : Nat) (ds' : Dec)
    (h : decapEnd crc ds buf pktLen gseLen = ⟨.ok (.completed st md), c, ds'⟩) :
    ∃ fragId ctx s m1,
      get8 buf FIXED_HEADER_LEN = some fragId ∧ ds.mem.takeFrag fragId = (.ok (ctx, s), m1) ∧
      md.exts = ctx.exts ∧ md.pt = ctx.pt ∧ md.label = ctx.label := by
  unfold decapEnd at h
  simp only [] at h
  split at h
  · simp [Dec.fail] at h
  split at h
  · simp at h
  rename_i fragId hg
  split at h
  · simp at h
  · simp at h
  rename_i ctx s m1 htf
  split at h
  · simp at h
  split at h
  · exact absurd (congrArg DecOut.res h) (giveBack_ne_ok _ _ _ _ _ _)
  split at h
  · rename_i data rxCrc hd hc
    generalize (if ctx.fromReuse = true then 0 else ctx.label.type.len) = fl at h
    generalize (if ctx.fromReuse = true then [] else ctx.label.bytes) = cl at h
    split at h
    · exact absurd (congrArg DecOut.res h) (giveBack_ne_ok _ _ _ _ _ _)
    split at h
    · simp at h
    split at h
    · exact absurd (congrArg DecOut.res h) (giveBack_ne_ok _ _ _ _ _ _)
    · simp only [DecOut.mk.injEq, Res.ok.injEq, DecStatus.completed.injEq] at h
      obtain ⟨⟨-, hmd⟩, -, -⟩ := h
      subst hmd
      exact ⟨fragId, ctx, s, m1, hg, htf, rfl, rfl, rfl⟩
  · simp at h

/-- the receiver after the first fragment of the example above -/
def C13.dsF : Dec :=
  ⟨{ ds0.mem with storages := [],
                  frags := [none, some (⟨lab6, 0x81, 1, 13, 1, false, chain⟩,
                                        ⟨7, [0xD1] ++ List.replicate 15 0⟩)] }, some lab6⟩

/-- the whole fragmented transfer on the example: first fragment with the chain, then the end
packet of `encap_frag` (which knows nothing of extensions): the PDU is delivered with the chain -/
example :
    (decap crc0 C13.mgr ds0 ((encapExt crc0 Enc.new pdu5 1 0x81 lab6 buf31 chain).buf.take 31)).st
      = C13.dsF ∧
    encapFrag pdu5 ⟨1, 0xDEADBEEF, 1⟩ buf64
      = (.ok (.completed 11), [0x70, 9, 1, 0xD2, 0xD3, 0xD4, 0xD5, 0xDE, 0xAD, 0xBE, 0xEF]
          ++ List.replicate 53 0xEE) ∧
    decap crc0 C13.mgr C13.dsF [0x70, 9, 1, 0xD2, 0xD3, 0xD4, 0xD5, 0xDE, 0xAD, 0xBE, 0xEF]
      = ⟨.ok (.completed ⟨7, pdu5 ++ List.replicate 11 0⟩ ⟨5, 0x81, lab6, chain⟩), 11,
         ⟨{ ds0.mem with storages := [] }, some lab6⟩⟩ := by decide +kernel

/-- the hypotheses of the two continuation theorems are satisfiable -/
example : decapEnd crc0 C13.dsF [0x70, 9, 1, 0xD2, 0xD3, 0xD4, 0xD5, 0xDE, 0xAD, 0xBE, 0xEF] 11 9
    = ⟨.ok (.completed ⟨7, pdu5 ++ List.replicate 11 0⟩ ⟨5, 0x81, lab6, chain⟩), 11,
       ⟨{ ds0.mem with storages := [] }, some lab6⟩⟩ := by decide +kernel
example : decapInter C13.dsF [0x30, 3, 1, 0xD2, 0xD3] 5 3
    = ⟨.ok (.fragmented ⟨0, 0x81, lab6, chain⟩), 5,
       ⟨{ C13.dsF.mem with
            frags := [none, some (⟨lab6, 0x81, 1, 13, 3, false, chain⟩,
                                  ⟨7, [0xD1, 0xD2, 0xD3] ++ List.replicate 13 0⟩)] }, some lab6⟩⟩ := by
  decide +kernel

/-! ### 5. An unknown mandatory extension: the packet is dropped as a whole -/

/-- Complete packet.  If the chain reaches a mandatory extension the receiver's manager does not
know (`HasUnknown`), the `n` bytes `encap_ext` wrote are rejected with
`ErrorUnkownMandatoryHeader`; exactly `n` bytes are consumed (the next packet is found), nothing
is taken from the memory, the label memory is cleared. -/
theorem C13_unknown_complete (crc : CrcFn) (es : Enc) (pdu : Bytes) (fid pt : Nat) (label : Label)
    (buf : Bytes) (exts : List Ext) (n : Nat) (mgr : MgrFn) (ds : Dec) (rest : Bytes)
    (hres : (encapExt crc es pdu fid pt label buf exts).res = .ok (.completed n))
    (hwf : ∀ e ∈ exts, e.WF) (hu : HasUnknown mgr exts) :
    decap crc mgr ds ((encapExt crc es pdu fid pt label buf exts).buf.take n ++ rest)
      = ⟨.err .unknownMandatoryHeader, n, ⟨ds.mem, none⟩⟩ := by
  have hok := ExtOk_of_wf hwf
  obtain ⟨hz, hne, hlen, hn, hnb, hbuf⟩ := encapExt_completed_inv hok hres
  have hL := extCompletePkt_length (pt := pt) (lbl := (checkLabelReUse es label).1) (pdu := pdu)
    hne hok
  rw [← hn] at hL
  rw [hbuf, List.take_left' hL]
  rw [decap_extCompletePkt_unknown crc ds rest (writtenLabel_ne_zero hz) hne hok hu hlen, hn]

/-- the receiver knows no mandatory extension at all -/
example : decap crc0 simpleMgr ds0
      ((encapExt crc0 Enc.new pdu5 1 0x81 lab6 buf64 chain).buf.take 32 ++ [0xAA, 0xBB])
    = ⟨.err .unknownMandatoryHeader, 32, ⟨ds0.mem, none⟩⟩ :=
  C13_unknown_complete crc0 Enc.new pdu5 1 0x81 lab6 buf64 chain 32 simpleMgr ds0 [0xAA, 0xBB]
    (by decide +kernel) (by decide) (by decide)
/-- the receiver knows 0x42 but not the final 0x81 (`SignalisationMandatoryExtensionHeaderManager`
is the converse: it knows 0x81 but not 0x42) -/
example : HasUnknown (fun id => if id = 0x42 then .nonFinal 3 else .unknown) chain ∧
    HasUnknown signalisationMgr chain := by decide

/-- First fragment: the same, with the label resolved first — if the label field is the re-use
marker and the receiver has no usable label the error is the label error (still the whole packet,
`n` bytes, nothing taken from the memory); otherwise it is `ErrorUnkownMandatoryHeader`. -/
theorem C13_unknown_first (crc : CrcFn) (es : Enc) (pdu : Bytes) (fid pt : Nat) (label : Label)
    (buf : Bytes) (exts : List Ext) (n : Nat) (ctx : FragCtx) (mgr : MgrFn) (ds : Dec) (rest : Bytes)
    (hres : (encapExt crc es pdu fid pt label buf exts).res = .ok (.fragmented n ctx))
    (hwf : ∀ e ∈ exts, e.WF) (hu : HasUnknown mgr exts) (hfid : fid < 256) :
    ∃ e, decap crc mgr ds ((encapExt crc es pdu fid pt label buf exts).buf.take n ++ rest)
          = ⟨.err e, n, ⟨ds.mem, none⟩⟩ ∧
      (((checkLabelReUse es label).1 = .reuse →
          ∃ l, ds.last = some l ∧ (l.type = .six ∨ l.type = .three)) →
        e = .unknownMandatoryHeader) := by
  have hok := ExtOk_of_wf hwf
  obtain ⟨hz, hne, hlt, htl, hg, hn, hctx, hnb, hbuf⟩ := encapExt_fragmented_inv hok hres
  have hwz := writtenLabel_ne_zero (es := es) hz
  have hwc := writtenLabel_cases es label
  generalize (checkLabelReUse es label).1 = wl at *
  generalize firstPayloadLen (wl.len + extLen pt exts) buf.length = k at *
  have htk : (pdu.take k).length = k := by rw [List.length_take]; omega
  have hL := extFirstPkt_length (pt := pt) (lbl := wl) (fid := fid)
    (tl := pdu.length + PROTOCOL_LEN + wl.len) (payload := pdu.take k) hne hok
  rw [htk, ← hn] at hL
  have := decap_extFirstPkt_unknown crc ds rest (fid := fid)
    (tl := pdu.length + PROTOCOL_LEN + wl.len) (payload := pdu.take k) hwz hne hok hu
    (by rw [htk]; exact hg) hfid (by gse_omega)
  rw [htk, ← hn] at this
  refine ⟨_, by rw [hbuf, List.take_left' hL]; exact this, fun hsync => ?_⟩
  by_cases hr : wl = .reuse
  · obtain ⟨l, h1, h2⟩ := hsync hr
    rw [hr, h1]
    cases l <;> simp [Label.type] at h2 <;> rfl
  · have : wl = label := hwc.resolve_right hr
    subst this
    cases wl <;> first | rfl | exact absurd rfl hr

example : decap crc0 simpleMgr ds0
      ((encapExt crc0 Enc.new pdu5 1 0x81 lab6 buf31 chain).buf.take 31 ++ [0xAA])
    = ⟨.err .unknownMandatoryHeader, 31, ⟨ds0.mem, none⟩⟩ := by
  obtain ⟨e, h1, h2⟩ := C13_unknown_first crc0 Enc.new pdu5 1 0x81 lab6 buf31 chain 31
    ⟨1, 0xDEADBEEF, 1⟩ simpleMgr ds0 [0xAA] (by decide +kernel) (by decide) (by decide) (by decide)
  rw [h1, h2 (fun h => absurd h (by decide))]

end Gse

#print axioms Gse.C13_walk
#print axioms Gse.C13_walk_unknown
#print axioms Gse.C13_encodable
#print axioms Gse.C13_length_complete
#print axioms Gse.C13_length_first
#print axioms Gse.C13_roundtrip_complete
#print axioms Gse.C13_roundtrip_first
#print axioms Gse.C13_inter_keeps_exts
#print axioms Gse.C13_end_delivers_exts
#print axioms Gse.C13_unknown_complete
#print axioms Gse.C13_unknown_first
