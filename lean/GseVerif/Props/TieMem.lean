/-
Translator tie, the capacity of the free list of SimpleGseMemory: the hand-written model agrees with every shape `tools/gen_lean.py`
recognised in the source on this run (`Generated/Facts.lean`).  A fact that was not recognised is `none` and
its theorem is vacuous (that behaviour is then tied by the correspondence check only); a recognised shape
whose content differs from the model breaks the corresponding theorem.  The tie is split by subject so that a
property is only tied to the facts its theorems rest on.
-/
import GseVerif.Generated.Facts
import GseVerif.Model.Memory

namespace Gse
open Gen

theorem Tie_mem_capacity (f) (h : memCapMarginFact = some f) (n sz : Nat) : (Mem.new n sz).cap = n + f := by
  unfold memCapMarginFact at h; cases h <;> rfl

end Gse

#print axioms Gse.Tie_mem_capacity
