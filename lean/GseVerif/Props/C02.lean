/-
Property C02 — "Fragmented round trip holds for every PDU and every buffer-size schedule".

For every PDU that fits the 16-bit total length, calling `encap` and then `encap_frag` with each
returned context over any sequence of output buffers (buffers rejected as too small are skipped)
reaches a completed status as soon as enough buffers of 13 bytes or more have been offered, and
feeding the produced packets in order to a decapsulator with sufficient storage yields fragmented
statuses carrying the PDU's label and protocol type followed by exactly one completed PDU equal to
the original in bytes, length, protocol type and label.  Each `decap` call consumes exactly the
length `encap` / `encap_frag` reported for that packet.

Quantifiers: every CRC calculator `crc` whose value for this PDU is a `u32` (`CrcFn` is `Nat`-valued
in the model; the Rust trait returns `u32`; without it the statement is false *of the model*, see
the `example` after `C02_end`), every extension manager, every encapsulator state (re-use enabled
or not: the first fragment may carry the label or the re-use marker), every PDU (any length: that
`|PDU| + 2 + |label as written| ≤ 65535` follows from `encap` returning `Fragmented`), all contents,
all label kinds, protocol types 0x0600..=0xFFFF, fragment ids 0..=255, every first output buffer,
every finite schedule of buffer sizes `sizes : List Nat` (and, by `C02_any_buffers`, every finite
sequence of output buffers whatever they contain), every receiver with a well-formed memory with at
least one slot whose slot `fid % max_frag_id` is free (a free storage able to hold the PDU being on
top of the free list) or occupied by a stale context whose storage can hold the PDU.

`want` is the label the receiver is expected to report: the label requested when it is a 3/6-byte or
broadcast label (if the encapsulator substituted it by the re-use marker, the receiver must remember
that very label: `ds.last = some label`, property C04 for lock-step histories), or the 3/6-byte
label the receiver remembers when `ReUse` was requested explicitly.

The runs: `fragPackets pdu ctx sizes` (sender: packets and still-open context), `fragLens` (the
lengths `encap_frag` reported), `rxRun crc mgr ds pkts` (receiver: (result, consumed) per packet and
final state) and the joint invariant `Sync` are in Lemmas/FragRoundtrip.lean.
-/
import GseVerif.Lemmas.FragRoundtrip
import GseVerif.Props.C01
import GseVerif.Props.C12

namespace Gse
open Gen

/-! Fixtures for the `example`s: a 60-byte PDU with distinct bytes, 6-byte label, first output
buffer of 20 bytes (7 PDU bytes go into the first fragment), then the schedule 2 (rejected),
15 (12 bytes), 9 (6 bytes), 13 (10 bytes), 100 (end packet: the remaining 25 bytes and the CRC);
a receiver with 2 slots and one free 64-byte storage. -/
namespace C02
def crc0 : CrcFn := fun _ _ _ _ => 0xDEADBEEF
def lab6 : Label := .six 1 2 3 4 5 6
def pdu60 : Bytes := (List.range 60).map (fun i => UInt8.ofNat (100 + i))
def buf20 : Bytes := List.replicate 20 0xEE
def sched : List Nat := [2, 15, 9, 13, 100]
def sto64 : Storage := ⟨7, List.replicate 64 0xAA⟩
/-- 2 slots, one free 64-byte storage, nothing remembered -/
def ds0 : Dec := ⟨⟨[sto64], [none, none], 2, 64, 4⟩, none⟩
/-- the same receiver remembering `lab6` -/
def ds6 : Dec := { ds0 with last := some lab6 }
/-- no free storage; slot 1 holds a stale context (fragment id 3 aliases id 1) with the storage -/
def dsStale : Dec :=
  ⟨⟨[], [none, some (⟨.three 9 9 9, 0x0801, 3, 500, 5, false, []⟩, sto64)], 2, 64, 4⟩, none⟩
/-- an encapsulator that has just sent `lab6` with re-use enabled -/
def esSent : Enc := ⟨true, 0, 0, some lab6⟩
/-- context returned with the first fragment -/
def ctx7 : FragCtx := ⟨1, 0xDEADBEEF, 7⟩
/-- the first fragment -/
def first20 : Bytes := (encap crc0 Enc.new pdu60 1 0x0800 lab6 buf20).buf.take 20
/-- the storage after the whole PDU has been reassembled in it -/
def sto64' : Storage := ⟨7, pdu60 ++ List.replicate 4 0xAA⟩
def frag6 (n : Nat) : Res DecErr DecStatus × Nat := (.ok (.fragmented ⟨0, 0x0800, lab6, []⟩), n)
end C02
open C02

/-! ### 1. One packet at a time -/

/-- **First fragment.**  `encap` returned `Fragmented(n₀, ctx₀)`; the receiver's slot is free (with
`s` on top of the free list) or holds a stale context with storage `s`; `s` can hold the PDU.  Then
`decap` of the `n₀` bytes written (followed by anything) reports `FragmentedPkt` with the protocol
type and the label `want`, consumes exactly `n₀`, remembers the label, and is in step with `ctx₀`
(`Sync`: the slot holds the context of this PDU and the first `ctx₀.pos` PDU bytes in `s`). -/
theorem C02_first (crc : CrcFn) (mgr : MgrFn) (es : Enc) (pdu : Bytes) (fid pt : Nat) (label : Label)
    (buf₀ : Bytes) (n₀ : Nat) (ctx₀ : FragCtx) (ds : Dec) (s : Storage) (want : Label) (rest : Bytes)
    (henc : (encap crc es pdu fid pt label buf₀).res = .ok (.fragmented n₀ ctx₀))
    (hpt : SECOND_RANGE_PTYPE ≤ pt) (hpt2 : pt < 65536) (hfid : fid < 256)
    (hwf : ds.mem.WF) (h0 : ds.mem.maxFragId ≠ 0)
    (hslot : (ds.mem.frags[fid % ds.mem.maxFragId]? = some none ∧ ds.mem.storages.head? = some s) ∨
      (∃ c0, ds.mem.frags[fid % ds.mem.maxFragId]? = some (some (c0, s))))
    (hcap : pdu.length ≤ s.data.length)
    (hes : es.last ≠ some .broadcast)
    (hsync :
      (label ≠ .reuse ∧ want = label ∧
        ((checkLabelReUse es label).1 = .reuse → ds.last = some label)) ∨
      (label = .reuse ∧ ds.last = some want ∧ (want.type = .six ∨ want.type = .three))) :
    ∃ ds', decap crc mgr ds ((encap crc es pdu fid pt label buf₀).buf.take n₀ ++ rest)
        = ⟨.ok (.fragmented ⟨0, pt, want, []⟩), n₀, ds'⟩ ∧
      Sync crc pdu fid (checkLabelReUse es label).1 want pt s.id ctx₀ ds' ∧
      ds'.last = (if label = .broadcast then none else some want) ∧
      ds'.mem.maxFragId = ds.mem.maxFragId ∧
      (∀ j, j ≠ fid % ds.mem.maxFragId → ds'.mem.frags[j]? = ds.mem.frags[j]?) ∧
      ((encap crc es pdu fid pt label buf₀).buf.take n₀).length = n₀ := by
  have hr : resolveLabel (checkLabelReUse es label).1.type (checkLabelReUse es label).1 ds.last
      = .ok want (if label = .broadcast then none else some want) := by
    rcases hsync with ⟨hl, rfl, hsy⟩ | ⟨rfl, hd, hw⟩
    · exact C01_resolve es want ds.last hl hes hsy
    · rw [hd, if_neg (by decide)]; exact C01_resolve_reuse es want hw
  obtain ⟨ds', hdec, hS, hlast, _, hM, _, _, hoth, hlen⟩ :=
    sync_first crc mgr henc hpt hpt2 hfid hwf h0 hslot hcap hr rest
  exact ⟨ds', hdec, hS, hlast, hM, hoth, hlen⟩

/-- the first fragment of the fixture: 7 + 6 header bytes and the first 7 PDU bytes -/
example : (encap crc0 Enc.new pdu60 1 0x0800 lab6 buf20).res = .ok (.fragmented 20 ctx7) ∧
    decap crc0 simpleMgr ds0 first20
      = ⟨.ok (.fragmented ⟨0, 0x0800, lab6, []⟩), 20,
         ⟨⟨[], [none, some (⟨lab6, 0x0800, 1, 68, 7, false, []⟩,
              ⟨7, pdu60.take 7 ++ List.replicate 57 0xAA⟩)], 2, 64, 4⟩, some lab6⟩⟩ := by
  decide +kernel
/-- the hypotheses of `C02_first` on that instance (free slot) -/
example :=
  C02_first crc0 simpleMgr Enc.new pdu60 1 0x0800 lab6 buf20 20 ctx7 ds0 sto64 lab6 [0x55]
    (by decide +kernel) (by decide) (by decide) (by decide) (by decide) (by decide)
    (Or.inl ⟨by decide, rfl⟩) (by decide) (by decide) (Or.inl ⟨by decide, rfl, by decide⟩)
/-- … with a stale context (aliasing fragment id 3) in the slot and no free storage: the context is
replaced, its storage reused -/
example :=
  C02_first crc0 simpleMgr Enc.new pdu60 1 0x0800 lab6 buf20 20 ctx7 dsStale sto64 lab6 []
    (by decide +kernel) (by decide) (by decide) (by decide) (by decide) (by decide)
    (Or.inr ⟨_, rfl⟩) (by decide) (by decide) (Or.inl ⟨by decide, rfl, by decide⟩)
/-- … with the label replaced by re-use (the encapsulator has just sent `lab6`, the receiver
remembers it): the first fragment is 6 bytes shorter and carries 13 PDU bytes -/
example : (checkLabelReUse esSent lab6).1 = .reuse ∧
    (encap crc0 esSent pdu60 1 0x0800 lab6 buf20).res = .ok (.fragmented 20 ⟨1, 0xDEADBEEF, 13⟩) := by
  decide +kernel
example :=
  C02_first crc0 simpleMgr esSent pdu60 1 0x0800 lab6 buf20 20 ⟨1, 0xDEADBEEF, 13⟩ ds6 sto64 lab6 []
    (by decide +kernel) (by decide) (by decide) (by decide) (by decide) (by decide)
    (Or.inl ⟨by decide, rfl⟩) (by decide) (by decide) (Or.inl ⟨by decide, rfl, fun _ => rfl⟩)
/-- … with `ReUse` requested explicitly: the receiver reports the label it remembers -/
example :=
  C02_first crc0 simpleMgr Enc.new pdu60 1 0x0800 .reuse buf20 20 ⟨1, 0xDEADBEEF, 13⟩ ds6 sto64 lab6 []
    (by decide +kernel) (by decide) (by decide) (by decide) (by decide) (by decide)
    (Or.inl ⟨by decide, rfl⟩) (by decide) (by decide) (Or.inr ⟨rfl, rfl, Or.inl rfl⟩)

/-- **Intermediate fragment.**  Receiver in step with `ctx`, `encap_frag` returns
`Fragmented(n, ctx')` into any buffer: `decap` of the `n` bytes written (followed by anything)
reports `FragmentedPkt` with protocol type and label, consumes exactly `n`, and is in step with
`ctx'`; free list, label memory, configuration and all other slots are unchanged. -/
theorem C02_inter (crc : CrcFn) (mgr : MgrFn) (pdu : Bytes) (fid : Nat) (lblW cur : Label)
    (pt sid : Nat) (ctx ctx' : FragCtx) (ds : Dec) (buf buf' : Bytes) (n : Nat) (rest : Bytes)
    (hS : Sync crc pdu fid lblW cur pt sid ctx ds)
    (he : encapFrag pdu ctx buf = (.ok (.fragmented n ctx'), buf')) :
    ∃ ds', decap crc mgr ds (buf'.take n ++ rest) = ⟨.ok (.fragmented ⟨0, pt, cur, []⟩), n, ds'⟩ ∧
      Sync crc pdu fid lblW cur pt sid ctx' ds' ∧
      Dec.SameBut (fid % ds.mem.maxFragId) ds ds' ∧ (buf'.take n).length = n :=
  sync_inter crc mgr hS he rest

/-- the receiver of the fixture after the first fragment -/
def C02.ds1 : Dec :=
  ⟨⟨[], [none, some (⟨lab6, 0x0800, 1, 68, 7, false, []⟩,
      ⟨7, pdu60.take 7 ++ List.replicate 57 0xAA⟩)], 2, 64, 4⟩, some lab6⟩

/-- it is in step with `ctx7` -/
theorem C02.sync1 : Sync crc0 pdu60 1 lab6 lab6 0x0800 7 ctx7 ds1 :=
  ⟨by decide, by decide, by decide, by decide, fun _ => rfl, rfl, rfl, by decide,
    ⟨7, pdu60.take 7 ++ List.replicate 57 0xAA⟩, by decide, rfl, by decide +kernel, by decide⟩

/-- a 15-byte buffer: 12 PDU bytes, context advanced from 7 to 19 -/
example : (encapFrag pdu60 ctx7 (List.replicate 15 0)).1 = .ok (.fragmented 15 ⟨1, 0xDEADBEEF, 19⟩) := by
  decide +kernel
example :=
  C02_inter crc0 simpleMgr pdu60 1 lab6 lab6 0x0800 7 ctx7 ⟨1, 0xDEADBEEF, 19⟩ ds1
    (List.replicate 15 0) (encapFrag pdu60 ctx7 (List.replicate 15 0)).2 15 [] C02.sync1
    (by decide +kernel)

/-- **End fragment.**  Receiver in step with `ctx`, `encap_frag` returns `Completed(n)`, the CRC of
the context is a `u32`: `decap` of the `n` bytes written (followed by anything) passes the
total-length and CRC checks and reports `CompletedPkt` with the storage `sid` starting with exactly
the PDU and metadata (PDU length, protocol type, label, no extensions), consumes exactly `n`; the
slot is empty afterwards and nothing else has changed. -/
theorem C02_end (crc : CrcFn) (mgr : MgrFn) (pdu : Bytes) (fid : Nat) (lblW cur : Label)
    (pt sid : Nat) (ctx : FragCtx) (ds : Dec) (buf buf' : Bytes) (n : Nat) (rest : Bytes)
    (hS : Sync crc pdu fid lblW cur pt sid ctx ds) (hc32 : ctx.crc < 2 ^ 32)
    (he : encapFrag pdu ctx buf = (.ok (.completed n), buf')) :
    ∃ st', decap crc mgr ds (buf'.take n ++ rest) =
        ⟨.ok (.completed st' ⟨pdu.length, pt, cur, []⟩), n,
         ⟨{ ds.mem with frags := ds.mem.frags.set (fid % ds.mem.maxFragId) none }, ds.last⟩⟩ ∧
      st'.id = sid ∧ st'.data.take pdu.length = pdu ∧ (buf'.take n).length = n := by
  obtain ⟨st', h1, h2, h3, _, h5⟩ := sync_end crc mgr hS hc32 he rest
  exact ⟨st', h1, h2, h3, h5⟩

/-- straight from the first fragment to the end: a 100-byte buffer takes the remaining 53 bytes -/
example : (encapFrag pdu60 ctx7 (List.replicate 100 0)).1 = .ok (.completed 60) := by decide +kernel
example :=
  C02_end crc0 simpleMgr pdu60 1 lab6 lab6 0x0800 7 ctx7 ds1 (List.replicate 100 0)
    (encapFrag pdu60 ctx7 (List.replicate 100 0)).2 60 [] C02.sync1 (by decide) (by decide +kernel)

/-- `hc32` cannot be dropped *in the model*: a "calculator" returning 2³² makes the sender write
the truncated value 0 and the receiver compare it with 2³² — `ErrorCrc`.  (Not a finding about the
Rust code, where `calculate_crc32` returns `u32`.) -/
example :
    let crcBig : CrcFn := fun _ _ _ _ => 2 ^ 32
    let e := encap crcBig Enc.new pdu60 1 0x0800 lab6 buf20
    let d1 := decap crcBig simpleMgr ds0 (e.buf.take 20)
    let f := encapFrag pdu60 ⟨1, 2 ^ 32, 7⟩ (List.replicate 100 0)
    e.res = .ok (.fragmented 20 ⟨1, 2 ^ 32, 7⟩) ∧ f.1 = .ok (.completed 60) ∧
      (decap crcBig simpleMgr d1.st (f.2.take 60)).res = .err .crc := by decide +kernel

/-- A refused buffer changes nothing: `encap_frag` never panics and hands a refused buffer back
untouched, the context is the caller's to re-use; nothing is sent, so the receiver is untouched
(`fragPackets` skips the buffer). -/
theorem C02_skip (pdu : Bytes) (ctx : FragCtx) (sz : Nat) (rest : List Nat) (e : EncErr)
    (h : (encapFrag pdu ctx (List.replicate sz 0)).1 = .err e) :
    encapFrag pdu ctx (List.replicate sz 0) = (.err e, List.replicate sz 0) ∧
    fragPackets pdu ctx (sz :: rest) = fragPackets pdu ctx rest ∧
    fragLens pdu ctx (sz :: rest) = fragLens pdu ctx rest ∧
    (∀ buf, (encapFrag pdu ctx buf).1 ≠ .panic) :=
  ⟨Prod.ext h ((encapFrag_refused pdu ctx _).2 e h),
   (fragPackets_cons_skip rest (by rw [h]; simp)).1, (fragPackets_cons_skip rest (by rw [h]; simp)).2,
   fun buf => (encapFrag_refused pdu ctx buf).1⟩

/-- the 2-byte buffer of the schedule -/
example : encapFrag pdu60 ctx7 (List.replicate 2 0) = (.err .sizeBuffer, [0, 0]) := by decide +kernel
example := C02_skip pdu60 ctx7 2 [15, 9, 13, 100] .sizeBuffer (by decide +kernel)

/-! ### 2. The round trip over a whole schedule -/

/-- **C02, round trip.**  `encap` returned `Fragmented(n₀, ctx₀)`; `sizes` is any schedule of output
buffer sizes offered to `encap_frag` (`pkts`: the packets produced, `lens`: the lengths reported for
them).  Feeding the first fragment and then `pkts`, in order, to the receiver:
* every packet has exactly the length reported for it, and every `decap` call consumes exactly that
  length;
* while the sender's run is still open, every result is `FragmentedPkt` carrying the protocol type
  and the label `want`;
* when the run completed, every result but the last is such a `FragmentedPkt` and the last — the
  only completed one — is `CompletedPkt` with the storage `s` (same identity) starting with exactly
  the PDU, and metadata: PDU length, protocol type, `want`, no extensions; the slot is empty again;
* the receiver remembers `want` afterwards (nothing after a broadcast label). -/
theorem C02_roundtrip (crc : CrcFn) (mgr : MgrFn) (es : Enc) (pdu : Bytes) (fid pt : Nat)
    (label : Label) (buf₀ : Bytes) (n₀ : Nat) (ctx₀ : FragCtx) (ds : Dec) (s : Storage) (want : Label)
    (sizes : List Nat)
    (henc : (encap crc es pdu fid pt label buf₀).res = .ok (.fragmented n₀ ctx₀))
    (hpt : SECOND_RANGE_PTYPE ≤ pt) (hpt2 : pt < 65536) (hfid : fid < 256)
    (hc32 : ctx₀.crc < 2 ^ 32)
    (hwf : ds.mem.WF) (h0 : ds.mem.maxFragId ≠ 0)
    (hslot : (ds.mem.frags[fid % ds.mem.maxFragId]? = some none ∧ ds.mem.storages.head? = some s) ∨
      (∃ c0, ds.mem.frags[fid % ds.mem.maxFragId]? = some (some (c0, s))))
    (hcap : pdu.length ≤ s.data.length)
    (hes : es.last ≠ some .broadcast)
    (hsync :
      (label ≠ .reuse ∧ want = label ∧
        ((checkLabelReUse es label).1 = .reuse → ds.last = some label)) ∨
      (label = .reuse ∧ ds.last = some want ∧ (want.type = .six ∨ want.type = .three))) :
    let first := (encap crc es pdu fid pt label buf₀).buf.take n₀
    let pkts := (fragPackets pdu ctx₀ sizes).1
    let lens := fragLens pdu ctx₀ sizes
    let R := rxRun crc mgr ds (first :: pkts)
    let frag : Nat → Res DecErr DecStatus × Nat := fun n => (.ok (.fragmented ⟨0, pt, want, []⟩), n)
    (first :: pkts).map List.length = n₀ :: lens ∧
    R.1.map Prod.snd = n₀ :: lens ∧
    R.2.last = (if label = .broadcast then none else some want) ∧
    (∀ c, (fragPackets pdu ctx₀ sizes).2 = some c → R.1 = (n₀ :: lens).map frag) ∧
    ((fragPackets pdu ctx₀ sizes).2 = none →
      ∃ init nLast st, lens = init ++ [nLast] ∧
        R.1 = (n₀ :: init).map frag ++ [(.ok (.completed st ⟨pdu.length, pt, want, []⟩), nLast)] ∧
        st.id = s.id ∧ st.data.take pdu.length = pdu ∧
        R.2.mem.frags[fid % ds.mem.maxFragId]? = some none) := by
  dsimp only
  obtain ⟨ds1, hdec, hS, hlast, hM, _, hlen1⟩ :=
    C02_first crc mgr es pdu fid pt label buf₀ n₀ ctx₀ ds s want [] henc hpt hpt2 hfid hwf h0 hslot
      hcap hes hsync
  rw [List.append_nil] at hdec
  obtain ⟨hl, hopen, hdone⟩ := sync_run crc mgr (by rw [← hS.ctx_crc]; exact hc32) (zeroBufs sizes)
    ctx₀ ds1 hS
  rw [hM] at hopen hdone
  have hR : ∀ ps, rxRun crc mgr ds ((encap crc es pdu fid pt label buf₀).buf.take n₀ :: ps)
      = (fragOut pt want n₀ :: (rxRun crc mgr ds1 ps).1, (rxRun crc mgr ds1 ps).2) := by
    intro ps; simp only [rxRun, hdec, fragOut]
  simp only [fragPackets, fragLens, hR, List.map_cons, hlen1]
  generalize fragSends pdu ctx₀ (zeroBufs sizes) = S at hl hopen hdone ⊢
  generalize rxRun crc mgr ds1 (S.1.map Prod.snd) = R1 at hopen hdone ⊢
  have hlens : (S.1.map Prod.snd).map List.length = S.1.map Prod.fst := by
    rw [List.map_map]
    exact List.map_congr_left fun q hq => hl q hq
  have hsnd : ∀ l : List Nat, (l.map (fragOut pt want)).map Prod.snd = l := by
    intro l; rw [List.map_map]; exact List.map_id' _
  have hcomp : S.1.map (fun q => fragOut pt want q.1) = (S.1.map Prod.fst).map (fragOut pt want) := by
    rw [List.map_map]; rfl
  refine ⟨by rw [hlens], ?_, ?_, fun c hc => ?_, fun hn => ?_⟩
  · cases hfin : S.2 with
    | some c =>
      rw [(hopen c hfin).1, hcomp, hsnd]; rfl
    | none =>
      obtain ⟨init, nLast, st, j1, j2, _⟩ := hdone hfin
      rw [j2, j1, List.map_append, hsnd]; rfl
  · cases hfin : S.2 with
    | some c => rw [(hopen c hfin).2.2.2.2.2.2.1, hlast]
    | none =>
      obtain ⟨_, _, _, _, _, _, _, j5, _⟩ := hdone hfin
      rw [j5.2.2.2.2.1, hlast]
  · rw [(hopen c hc).1, hcomp]; rfl
  · obtain ⟨init, nLast, st, j1, j2, j3, j4, _, j6⟩ := hdone hn
    exact ⟨init, nLast, st, j1, by rw [j2]; rfl, j3, j4, j6⟩

/-- the whole fixture evaluated: first fragment, the 2-byte buffer is skipped, three intermediate
fragments, the end fragment; every consumed length is the reported one; the PDU is delivered in
storage 7, whose remaining 4 bytes are untouched; the slot is empty again -/
example : (encap crc0 Enc.new pdu60 1 0x0800 lab6 buf20).res = .ok (.fragmented 20 ctx7) ∧
    fragLens pdu60 ctx7 sched = [15, 9, 13, 32] ∧
    (fragPackets pdu60 ctx7 sched).1.map List.length = [15, 9, 13, 32] ∧
    (fragPackets pdu60 ctx7 sched).2 = none ∧
    rxRun crc0 simpleMgr ds0 (first20 :: (fragPackets pdu60 ctx7 sched).1)
      = ([frag6 20, frag6 15, frag6 9, frag6 13,
          (.ok (.completed sto64' ⟨60, 0x0800, lab6, []⟩), 32)],
         ⟨⟨[], [none, none], 2, 64, 4⟩, some lab6⟩) := by decide +kernel
/-- the hypotheses of `C02_roundtrip` on that instance -/
example :=
  C02_roundtrip crc0 simpleMgr Enc.new pdu60 1 0x0800 lab6 buf20 20 ctx7 ds0 sto64 lab6 sched
    (by decide +kernel) (by decide) (by decide) (by decide) (by decide) (by decide) (by decide)
    (Or.inl ⟨by decide, rfl⟩) (by decide) (by decide) (Or.inl ⟨by decide, rfl, by decide⟩)
/-- a schedule that stops early: all results are `FragmentedPkt`, the context stays open -/
example : (fragPackets pdu60 ctx7 [2, 15, 9]).2 = some ⟨1, 0xDEADBEEF, 25⟩ ∧
    (rxRun crc0 simpleMgr ds0 (first20 :: (fragPackets pdu60 ctx7 [2, 15, 9]).1)).1
      = [frag6 20, frag6 15, frag6 9] := by decide +kernel
/-- the same PDU with the default CRC-32 calculator (a `u32` by `C12_default_lt`), the label replaced
by re-use in the first fragment, the slot occupied by a stale context -/
example :
    let e := encap defaultCrc esSent pdu60 1 0x0800 lab6 buf20
    let ds : Dec := { dsStale with last := some lab6 }
    ∃ c, e.res = .ok (.fragmented 20 ⟨1, c, 13⟩) ∧ (fragPackets pdu60 ⟨1, c, 13⟩ sched).2 = none ∧
      (rxRun defaultCrc simpleMgr ds (e.buf.take 20 :: (fragPackets pdu60 ⟨1, c, 13⟩ sched).1)).1
        = [frag6 20, frag6 15, frag6 9, frag6 13,
           (.ok (.completed sto64' ⟨60, 0x0800, lab6, []⟩), 26)] :=
  ⟨defaultCrc pdu60 0x0800 62 [], by decide +kernel⟩

/-! ### 3. Progress: enough buffers of 13 (or 7) bytes complete the run -/

private theorem countP_zeroBufs (t : Nat) (sizes : List Nat) :
    (zeroBufs sizes).countP (fun b => decide (t ≤ b.length))
      = sizes.countP (fun sz => decide (t ≤ sz)) := by
  induction sizes with
  | nil => rfl
  | cons sz rest ih =>
    simp only [zeroBufs, List.map_cons, List.countP_cons, List.length_replicate] at ih ⊢
    rw [ih]

/-- **C02, progress.**  After the first fragment, the run reaches the completed status as soon as
`remaining / 10 + 2` buffers of 13 bytes or more have been offered — whatever smaller buffers are
offered in between (they are rejected and skipped, or carry a few bytes, or even finish the PDU). -/
theorem C02_progress (pdu : Bytes) (ctx : FragCtx) (sizes : List Nat)
    (hp : pdu.length ≤ TOTAL_LEN_MAX) (hpos : ctx.pos ≤ pdu.length)
    (hcnt : (pdu.length - ctx.pos) / 10 + 2 ≤ sizes.countP (fun sz => decide (13 ≤ sz))) :
    (fragPackets pdu ctx sizes).2 = none := by
  refine fragSends_completes pdu hp 10 (by decide) (by decide)
    (fun r => if r = 0 then 1 else r / 10 + 2) (fun r => by split <;> omega)
    (fun r k hr hk hkr => ?_) (fun r k hkr => ?_) (zeroBufs sizes) ctx hpos ?_
  · split <;> split <;> omega
  · split <;> split <;> omega
  · rw [countP_zeroBufs]
    show _ ≤ sizes.countP (fun sz => decide (13 ≤ sz))
    split <;> omega

/-- … and, with buffers of at least 7 bytes (each carries 4 bytes or is the end packet), as soon as
`remaining + 1` of them have been offered. -/
theorem C02_progress7 (pdu : Bytes) (ctx : FragCtx) (sizes : List Nat)
    (hp : pdu.length ≤ TOTAL_LEN_MAX) (hpos : ctx.pos ≤ pdu.length)
    (hcnt : pdu.length - ctx.pos + 1 ≤ sizes.countP (fun sz => decide (7 ≤ sz))) :
    (fragPackets pdu ctx sizes).2 = none := by
  refine fragSends_completes pdu hp CRC_LEN (Nat.le_refl _) (by decide) (fun r => r + 1)
    (fun r => by omega) (fun r k hr hk hkr => ?_) (fun r k hkr => by omega) (zeroBufs sizes) ctx
    hpos ?_
  · simp only [CRC_LEN] at hk; omega
  · rw [countP_zeroBufs]; exact hcnt

/-- the simple forms: every offered buffer is large enough (`C11_progress13` / `C11_bound`) -/
theorem C02_progress_all (pdu : Bytes) (ctx : FragCtx) (sizes : List Nat)
    (hp : pdu.length ≤ TOTAL_LEN_MAX) (hpos : ctx.pos ≤ pdu.length) :
    ((∀ sz ∈ sizes, 13 ≤ sz) → (pdu.length - ctx.pos) / 10 + 2 ≤ sizes.length →
      (fragPackets pdu ctx sizes).2 = none) ∧
    ((∀ sz ∈ sizes, 7 ≤ sz) → pdu.length - ctx.pos + 1 ≤ sizes.length →
      (fragPackets pdu ctx sizes).2 = none) := by
  constructor
  · intro hall hlen
    rw [fragPackets_fin]
    exact C11_progress13 pdu ctx sizes hp hpos hall hlen
  · intro hall hlen
    rw [fragPackets_fin]
    exact C11_bound pdu ctx sizes hp hpos hall hlen

/-- 53 bytes remain after the first fragment of the fixture: 53 / 10 + 2 = 7 buffers of 13 bytes
suffice, with rejected (2, 3) and small (5, 9) buffers in between -/
example : (fragPackets pdu60 ctx7 [13, 2, 13, 5, 13, 3, 13, 9, 13, 13, 13]).2 = none :=
  C02_progress pdu60 ctx7 _ (by decide) (by decide) (by decide)
example : (fragPackets pdu60 ctx7 (List.replicate 54 7)).2 = none :=
  C02_progress7 pdu60 ctx7 _ (by decide) (by decide) (by decide)
example : (fragPackets pdu60 ctx7 (List.replicate 7 13)).2 = none :=
  (C02_progress_all pdu60 ctx7 _ (by decide) (by decide)).1 (by decide) (by decide)
/-- buffers below 7 bytes may never finish: once only the CRC remains they are all rejected -/
example : (fragPackets pdu60 ⟨1, 0xDEADBEEF, 60⟩ (List.replicate 20 6)).2 = some ⟨1, 0xDEADBEEF, 60⟩ := by
  decide +kernel

/-- **C02, delivery.**  Round trip and progress together: once `remaining / 10 + 2` buffers of 13
bytes or more have been offered, the receiver has delivered the PDU — `FragmentedPkt` for every
packet but the last, then exactly one `CompletedPkt` with the original bytes, length, protocol type
and label, each call consuming the reported length. -/
theorem C02_delivery (crc : CrcFn) (mgr : MgrFn) (es : Enc) (pdu : Bytes) (fid pt : Nat)
    (label : Label) (buf₀ : Bytes) (n₀ : Nat) (ctx₀ : FragCtx) (ds : Dec) (s : Storage) (want : Label)
    (sizes : List Nat)
    (henc : (encap crc es pdu fid pt label buf₀).res = .ok (.fragmented n₀ ctx₀))
    (hpt : SECOND_RANGE_PTYPE ≤ pt) (hpt2 : pt < 65536) (hfid : fid < 256)
    (hc32 : ctx₀.crc < 2 ^ 32)
    (hwf : ds.mem.WF) (h0 : ds.mem.maxFragId ≠ 0)
    (hslot : (ds.mem.frags[fid % ds.mem.maxFragId]? = some none ∧ ds.mem.storages.head? = some s) ∨
      (∃ c0, ds.mem.frags[fid % ds.mem.maxFragId]? = some (some (c0, s))))
    (hcap : pdu.length ≤ s.data.length)
    (hes : es.last ≠ some .broadcast)
    (hsync :
      (label ≠ .reuse ∧ want = label ∧
        ((checkLabelReUse es label).1 = .reuse → ds.last = some label)) ∨
      (label = .reuse ∧ ds.last = some want ∧ (want.type = .six ∨ want.type = .three)))
    (hcnt : (pdu.length - ctx₀.pos) / 10 + 2 ≤ sizes.countP (fun sz => decide (13 ≤ sz))) :
    ∃ init nLast st, fragLens pdu ctx₀ sizes = init ++ [nLast] ∧
      (rxRun crc mgr ds ((encap crc es pdu fid pt label buf₀).buf.take n₀
          :: (fragPackets pdu ctx₀ sizes).1)).1
        = (n₀ :: init).map (fun n => (.ok (.fragmented ⟨0, pt, want, []⟩), n))
          ++ [(.ok (.completed st ⟨pdu.length, pt, want, []⟩), nLast)] ∧
      st.id = s.id ∧ st.data.take pdu.length = pdu := by
  obtain ⟨_, _, hlt, htl, _⟩ := encap_fragmented_inv henc
  have hfin := C02_progress pdu ctx₀ sizes (by gse_omega) (Nat.le_of_lt hlt) hcnt
  obtain ⟨init, nLast, st, h1, h2, h3, h4, _⟩ :=
    (C02_roundtrip crc mgr es pdu fid pt label buf₀ n₀ ctx₀ ds s want sizes henc hpt hpt2 hfid hc32
      hwf h0 hslot hcap hes hsync).2.2.2.2 hfin
  exact ⟨init, nLast, st, h1, h2, h3, h4⟩

example :=
  C02_delivery crc0 simpleMgr Enc.new pdu60 1 0x0800 lab6 buf20 20 ctx7 ds0 sto64 lab6
    [13, 2, 13, 5, 13, 3, 13, 9, 13, 13, 13]
    (by decide +kernel) (by decide) (by decide) (by decide) (by decide) (by decide) (by decide)
    (Or.inl ⟨by decide, rfl⟩) (by decide) (by decide) (Or.inl ⟨by decide, rfl, by decide⟩)
    (by decide)

/-! ### 4. Every PDU: the unfragmented case, and `encap` never refuses a PDU that fits -/

/-- **C02, completed case** (property C01): when `encap` returns `Completed(n)` the single packet is
delivered at once — `CompletedPkt` with the original bytes, length, protocol type and label,
consuming exactly `n`. -/
theorem C02_complete_case (crc : CrcFn) (mgr : MgrFn) (es : Enc) (pdu : Bytes) (fid pt : Nat)
    (label : Label) (buf : Bytes) (n : Nat) (ds : Dec) (s : Storage) (free : List Storage)
    (want : Label)
    (henc : (encap crc es pdu fid pt label buf).res = .ok (.completed n))
    (hpt : SECOND_RANGE_PTYPE ≤ pt) (hpt2 : pt < 65536)
    (hs : ds.mem.storages = s :: free) (hcap : pdu.length ≤ s.data.length)
    (hes : es.last ≠ some .broadcast)
    (hsync :
      (label ≠ .reuse ∧ want = label ∧
        ((checkLabelReUse es label).1 = .reuse → ds.last = some label)) ∨
      (label = .reuse ∧ ds.last = some want ∧ (want.type = .six ∨ want.type = .three))) :
    ∃ st ds', rxRun crc mgr ds [(encap crc es pdu fid pt label buf).buf.take n]
        = ([(.ok (.completed st ⟨pdu.length, pt, want, []⟩), n)], ds') ∧
      st.id = s.id ∧ st.data.take pdu.length = pdu ∧
      ((encap crc es pdu fid pt label buf).buf.take n).length = n := by
  obtain ⟨st, md, ds', hdec, hid, hdat, _, _, hmd, _⟩ :=
    C01_roundtrip_take crc mgr es pdu fid pt label buf n ds s free want henc hpt hpt2 hs hcap hes
      hsync
  subst hmd
  refine ⟨st, ds', by simp only [rxRun, hdec], hid, hdat, ?_⟩
  have hn := ((C01_complete_iff crc es pdu fid pt label buf n).mp henc).2.2.2
  rw [List.length_take]
  have hlen : (encap crc es pdu fid pt label buf).buf.length = buf.length := by
    have hc := encap_cases crc es pdu fid pt label buf
    dsimp only at hc
    rcases hc with ⟨_, ho⟩ | ⟨_, _, ho⟩ | ⟨_, _, hf, ho⟩ | ⟨_, _, _, _, ho⟩ | ⟨_, _, _, _, _, ho⟩ |
      ⟨_, _, _, _, _, _, ho⟩ <;> rw [ho] at henc ⊢ <;> cases henc
    simp only [List.length_append, be16_length, Label.bytes_length, List.length_drop]
    gse_omega
  rw [hlen]; omega

/-- a 64-byte first buffer takes the whole 60-byte PDU of the fixture -/
example :=
  C02_complete_case crc0 simpleMgr Enc.new pdu60 1 0x0800 lab6 (List.replicate 70 0) 70 ds0 sto64 []
    lab6 (by decide +kernel) (by decide) (by decide) rfl (by decide) (by decide)
    (Or.inl ⟨by decide, rfl, by decide⟩)

/-- `encap` refuses no PDU that fits: for a valid label and protocol type, a PDU within the 16-bit
total length and a buffer with room for the first-fragment header, it returns `Completed`
(`C02_complete_case`) or `Fragmented` (`C02_roundtrip`).  So the two cases cover every PDU of
0..=65533 − |label as written| bytes. -/
theorem C02_every_pdu (crc : CrcFn) (es : Enc) (pdu : Bytes) (fid pt : Nat) (label : Label)
    (buf : Bytes) (hz : label ≠ zeroLabel) (hpt : SECOND_RANGE_PTYPE ≤ pt)
    (hb : FIRST_FRAG_LEN + (checkLabelReUse es label).1.len ≤ buf.length)
    (ht : pdu.length + PROTOCOL_LEN + (checkLabelReUse es label).1.len ≤ TOTAL_LEN_MAX) :
    (∃ n, (encap crc es pdu fid pt label buf).res = .ok (.completed n)) ∨
    (∃ n ctx, (encap crc es pdu fid pt label buf).res = .ok (.fragmented n ctx)) := by
  have hc := encap_cases crc es pdu fid pt label buf
  dsimp only at hc
  rcases hc with ⟨h, _⟩ | ⟨_, h, _⟩ | ⟨_, _, _, ho⟩ | ⟨_, _, _, h, _⟩ | ⟨_, _, _, _, h, _⟩ |
    ⟨_, _, _, _, _, _, ho⟩
  · exact absurd h hz
  · exfalso; gse_omega
  · exact Or.inl ⟨_, by rw [ho]⟩
  · exfalso; gse_omega
  · exfalso; gse_omega
  · exact Or.inr ⟨_, _, by rw [ho]⟩

/-- the largest PDU for a 6-byte label (65 527 bytes) in a 13-byte buffer (header only) -/
example := C02_every_pdu crc0 Enc.new (List.replicate 65527 0) 1 0x0800 lab6 (List.replicate 13 0)
  (by decide) (by decide) (by decide +kernel) (by decide +kernel)

/-! ### 5. The schedule: sizes only; the packets are C11's payloads in their headers -/

/-- Whatever the offered output buffers contain, packets, reported lengths and contexts are those
of the schedule of their sizes: `C02_roundtrip`, `C02_progress`, `C02_delivery` hold for every
finite sequence of output buffers. -/
theorem C02_any_buffers (pdu : Bytes) (ctx : FragCtx) (bufs : List Bytes)
    (hp : pdu.length ≤ TOTAL_LEN_MAX) :
    ((fragSends pdu ctx bufs).1.map Prod.snd, (fragSends pdu ctx bufs).2)
      = fragPackets pdu ctx (bufs.map List.length) ∧
    (fragSends pdu ctx bufs).1.map Prod.fst = fragLens pdu ctx (bufs.map List.length) := by
  rw [fragSends_sizes pdu hp bufs ctx]
  exact ⟨rfl, rfl⟩

example : (fragSends pdu60 ctx7 [[1, 2], List.replicate 15 0x77, (List.range 100).map UInt8.ofNat]).1
    = [(15, (fragPackets pdu60 ctx7 [2, 15, 100]).1[0]!), (48, (fragPackets pdu60 ctx7 [2, 15, 100]).1[1]!)] := by
  decide +kernel
example := C02_any_buffers pdu60 ctx7 [[1, 2], List.replicate 15 0x77] (by decide)

/-- The runs of this file and of C11 are the same: same open context, and the packets are the
payloads of `fragRun` — consecutive slices partitioning the rest of the PDU (`C11_partition`) — as
intermediate fragments, the last one of a completed run as the end fragment with the CRC. -/
theorem C02_packets (pdu : Bytes) (ctx : FragCtx) (sizes : List Nat) (hp : pdu.length ≤ TOTAL_LEN_MAX) :
    (fragPackets pdu ctx sizes).2 = (fragRun pdu ctx sizes).2 ∧
    (fragPackets pdu ctx sizes).1
      = wrapPkts ctx.fragId ctx.crc (fragRun pdu ctx sizes).2.isNone (fragRun pdu ctx sizes).1 :=
  ⟨fragPackets_fin pdu sizes ctx, fragPackets_wrap pdu hp sizes ctx⟩

example : (fragPackets pdu60 ctx7 sched).1
    = [interPkt 1 ((pdu60.drop 7).take 12), interPkt 1 ((pdu60.drop 19).take 6),
       interPkt 1 ((pdu60.drop 25).take 10), endPkt 1 (pdu60.drop 35) 0xDEADBEEF] := by
  decide +kernel
example := C02_packets pdu60 ctx7 sched (by decide)

end Gse

#print axioms Gse.C02_first
#print axioms Gse.C02_inter
#print axioms Gse.C02_end
#print axioms Gse.C02_skip
#print axioms Gse.C02_roundtrip
#print axioms Gse.C02_progress
#print axioms Gse.C02_progress7
#print axioms Gse.C02_progress_all
#print axioms Gse.C02_delivery
#print axioms Gse.C02_complete_case
#print axioms Gse.C02_every_pdu
#print axioms Gse.C02_any_buffers
#print axioms Gse.C02_packets
