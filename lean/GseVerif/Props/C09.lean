/-
Property C09 — "Encapsulation calls are total and failure-atomic".

`encap`, `encap_frag`, `encap_ext` and both preview functions return Ok or Err without panicking
for every PDU, metadata, context, extension list and buffer.  When they return Err the output
buffer is byte-for-byte unchanged and the encapsulator is in the same state as before the call.
`encap` and `encap_ext` return an error, never a packet, for a zero 6-byte label, a protocol type
in 0x0100..=0x05FF or a PDU exceeding the 16-bit total length, and `encap_frag` does so for a
context pointing beyond the PDU.

All theorems hold for every CRC calculator `crc` and every encapsulator state `es` (any re-use
configuration, any remembered label).  They are corollaries of the closed forms in
Lemmas/EncapLayer.lean (`encap_cases`, `encapFrag_cases`, `encapExt_cases`), which evaluate every
slice bound, checked addition and `as u16` cast of the model.

About extensions: the model type `Ext` keeps the variant tag (`kind`) and the data bytes in
separate fields, whereas the Rust enum `ExtensionData::Data2([u8; 2])`, … ties them together.
`ExtOk exts` states that tie (`Extension::len` is 2 + the stored data length); it holds for every
value of the Rust type and for everything `Extension::new` builds (`Ext.WF.len_eq` in
Lemmas/Ext.lean).  Without it the model has junk values on which the totality statement is false
(see the `example` after `C09_total_encapExt`); the rejection theorems do not need it.
-/
import GseVerif.Lemmas.EncapLayer
import GseVerif.Lemmas.Ext

namespace Gse
open Gen

/-- every extension of the list carries exactly the data its variant announces -/
def ExtOk (exts : List Ext) : Prop := ∀ e ∈ exts, e.len = PROTOCOL_LEN + e.data.length

/-- everything `Extension::new` returns satisfies it (`Ext.WF` is the invariant of Lemmas/Ext.lean) -/
theorem ExtOk_of_wf {exts : List Ext} (h : ∀ e ∈ exts, e.WF) : ExtOk exts :=
  fun e he => (h e he).len_eq

theorem ExtOk_of_extNew {exts : List Ext}
    (h : ∀ e ∈ exts, ∃ id data, extNew id data = .ok e) : ExtOk exts :=
  ExtOk_of_wf (fun e he => by
    obtain ⟨id, data, hn⟩ := h e he
    exact extNew_ok_wf hn)

/-! Fixtures for the `example`s. -/
namespace C09
/-- a CRC calculator that is cheap to evaluate (the theorems are for every calculator) -/
def crc0 : CrcFn := fun _ _ _ _ => 0xDEADBEEF
def lab6 : Label := .six 1 2 3 4 5 6
def lab3 : Label := .three 7 8 9
/-- 5000-byte PDU -/
def bigPdu : Bytes := List.replicate 5000 7
/-- 4200-byte buffer -/
def bigBuf : Bytes := List.replicate 4200 0
def smallPdu : Bytes := [10, 11, 12, 13, 14, 15, 16, 17, 18, 19]
def buf40 : Bytes := List.replicate 40 0xEE
/-- an encapsulator that has just sent `lab6` with re-use enabled -/
def esSent : Enc := ⟨true, 0, 0, some lab6⟩
/-- an optional extension with two data bytes and a final mandatory extension -/
def ext2 : Ext := ⟨0x0234, .data2, [0xA1, 0xA2]⟩
def extM : Ext := ⟨0x0081, .mandatory, [1, 2, 3]⟩
/-- a junk value of the model type that the Rust type cannot hold: variant `Data2`, ten bytes -/
def extJunk : Ext := ⟨0x0234, .data2, List.replicate 10 0⟩
end C09
open C09

/-! ### 1. Totality: no call panics -/

theorem C09_total_encap (crc : CrcFn) (es : Enc) (pdu : Bytes) (fid pt : Nat) (label : Label)
    (buf : Bytes) : (encap crc es pdu fid pt label buf).res ≠ .panic := by
  have h := encap_cases crc es pdu fid pt label buf
  dsimp only at h
  rcases h with ⟨_, h⟩ | ⟨_, _, h⟩ | ⟨_, _, _, h⟩ | ⟨_, _, _, _, h⟩ | ⟨_, _, _, _, _, h⟩ |
    ⟨_, _, _, _, _, _, h⟩ <;> rw [h] <;> exact fun hp => by cases hp

/-- the 5000-byte PDU into the 4200-byte buffer: a first fragment of the maximal GSE length -/
example : (encap crc0 Enc.new bigPdu 1 0x0800 lab6 bigBuf).res
    = .ok (.fragmented 4097 ⟨1, 0xDEADBEEF, 4084⟩) := by decide +kernel
example : (encap crc0 Enc.new smallPdu 1 0x0800 lab6 buf40).res = .ok (.completed 20) := by
  decide +kernel
/-- the 5000-byte PDU into a 70 000-byte buffer (the payload is clamped to the GSE length; before
the repair of the Rust code this input panicked after writing the header) -/
example : (encap crc0 Enc.new bigPdu 1 0x0800 lab6 (List.replicate 70000 0)).res
    = .ok (.fragmented 4097 ⟨1, 0xDEADBEEF, 4084⟩) := by decide +kernel

theorem C09_total_encapFrag (pdu : Bytes) (ctx : FragCtx) (buf : Bytes) :
    (encapFrag pdu ctx buf).1 ≠ .panic := by
  have h := encapFrag_cases pdu ctx buf
  dsimp only at h
  rcases h with ⟨_, h⟩ | ⟨_, _, h⟩ | ⟨_, _, _, _, _, h, _⟩ | ⟨_, _, _, h⟩ <;> rw [h] <;>
    exact fun hp => by cases hp

example : (encapFrag bigPdu ⟨1, 0xDEADBEEF, 4084⟩ bigBuf).1 = .ok (.completed 923) := by
  decide +kernel
example : (encapFrag bigPdu ⟨1, 0xDEADBEEF, 100⟩ bigBuf).1
    = .ok (.fragmented 4097 ⟨1, 0xDEADBEEF, 4194⟩) := by decide +kernel
/-- any position, also beyond the PDU, also beyond `u16` -/
example : (encapFrag smallPdu ⟨1, 0, 70000⟩ buf40).1 = .err .pduLength := by decide +kernel

theorem C09_total_encapExt (crc : CrcFn) (es : Enc) (pdu : Bytes) (fid pt : Nat) (label : Label)
    (buf : Bytes) (exts : List Ext) (hwf : ExtOk exts) :
    (encapExt crc es pdu fid pt label buf exts).res ≠ .panic := by
  have h := encapExt_cases crc es pdu fid pt label buf exts hwf
  dsimp only at h
  rcases h with ⟨_, h⟩ | ⟨_, _, ⟨_, h⟩ | ⟨_, ⟨_, h⟩ | ⟨_, ⟨_, h⟩ | ⟨_, ⟨_, h⟩ | ⟨_, _, h⟩ |
    ⟨_, _, _, h⟩ | ⟨_, _, _, _, h⟩⟩⟩⟩⟩ <;> rw [h] <;> exact fun hp => by cases hp

example : ExtOk [ext2, extM] := by
  intro e he
  simp only [List.mem_cons, List.not_mem_nil, or_false] at he
  rcases he with rfl | rfl <;> rfl
example : extNew 0x0234 [0xA1, 0xA2] = .ok ext2 ∧ extNew 0x0081 [1, 2, 3] = .ok extM := by decide
example : (encapExt crc0 Enc.new smallPdu 1 0x0081 lab6 buf40 [ext2, extM]).res
    = .ok (.completed 27) := by decide +kernel
/-- a 5000-byte mandatory extension (longer than a packet) is refused, not a panic -/
example : (encapExt crc0 Enc.new smallPdu 1 0x0081 lab6 (List.replicate 6000 0)
    [⟨0x0081, .mandatory, List.replicate 5000 0⟩]).res = .err .pduLength := by decide +kernel
/-- the hypothesis `ExtOk` is needed in the model: a `Data2` variant holding ten bytes (which the
Rust type `ExtensionData` cannot represent) overruns the length that was checked -/
example : ¬ExtOk [extJunk] ∧
    (encapExt crc0 Enc.new [] 1 0x0800 .broadcast (List.replicate 8 0) [extJunk]).res = .panic := by
  refine ⟨fun h => ?_, by decide +kernel⟩
  have := h extJunk List.mem_cons_self
  revert this
  decide

theorem C09_total_preview (pduLen pt : Nat) (label : Label) (bufLen : Nat) :
    encapPreview pduLen pt label bufLen ≠ .panic := by
  have hl := label.len_le
  unfold encapPreview
  simp only []
  split
  · exact fun hp => by cases hp
  split
  · exact fun hp => by cases hp
  split
  · rename_i hfit
    rw [if_neg (by
      have := Nat.mod_le (pduLen + label.len + PROTOCOL_LEN) 65536
      gse_omega)]
    exact fun hp => by cases hp
  split
  · exact fun hp => by cases hp
  split
  · exact fun hp => by cases hp
  rw [if_neg (by gse_omega)]
  rw [show min (bufLen - (FIXED_HEADER_LEN + PROTOCOL_LEN + label.len + FRAG_ID_LEN + TOTAL_LENGTH_LEN))
      (GSE_LEN_MAX - (FRAG_ID_LEN + TOTAL_LENGTH_LEN + PROTOCOL_LEN + label.len))
    = firstPayloadLen label.len bufLen from rfl]
  have hn : firstPayloadLen label.len bufLen
      ≤ GSE_LEN_MAX - (FRAG_ID_LEN + TOTAL_LENGTH_LEN + PROTOCOL_LEN + label.len) :=
    Nat.min_le_right _ _
  rw [if_neg (by
    have := Nat.mod_le (FRAG_ID_LEN + TOTAL_LENGTH_LEN + PROTOCOL_LEN + label.len
      + firstPayloadLen label.len bufLen) 65536
    gse_omega)]
  exact fun hp => by cases hp

example : encapPreview 5000 0x0800 lab6 70000 = .ok ⟨.first, 5000, 4097⟩ := by decide

theorem C09_total_fragPreview (pduLen : Nat) (ctx : FragCtx) (bufLen : Nat) :
    encapFragPreview pduLen ctx bufLen ≠ .panic := by
  unfold encapFragPreview
  simp only []
  repeat' split
  all_goals exact fun hp => by cases hp

example : encapFragPreview 5000 ⟨1, 0, 4084⟩ 70000 = .ok ⟨.end_, 916, 923⟩ := by decide

/-! ### 2. Failure atomicity: an `Err` leaves buffer and encapsulator untouched -/

theorem C09_atomic_encap (crc : CrcFn) (es : Enc) (pdu : Bytes) (fid pt : Nat) (label : Label)
    (buf : Bytes) (e : EncErr) (he : (encap crc es pdu fid pt label buf).res = .err e) :
    (encap crc es pdu fid pt label buf).buf = buf ∧ (encap crc es pdu fid pt label buf).st = es := by
  have h := encap_cases crc es pdu fid pt label buf
  dsimp only at h
  rcases h with ⟨_, h⟩ | ⟨_, _, h⟩ | ⟨_, _, _, h⟩ | ⟨_, _, _, _, h⟩ | ⟨_, _, _, _, _, h⟩ |
    ⟨_, _, _, _, _, _, h⟩ <;> rw [h] at he ⊢ <;> first | exact ⟨rfl, rfl⟩ | cases he

/-- the hypothesis is satisfiable in a state where `check_label_re_use` has already replaced the
label and moved the counters: the buffer is too small, state and buffer come back unchanged -/
example : (encap crc0 esSent bigPdu 1 0x0800 lab6 [1, 2, 3]).res = .err .sizeBuffer ∧
    (encap crc0 esSent bigPdu 1 0x0800 lab6 [1, 2, 3]).buf = [1, 2, 3] ∧
    (encap crc0 esSent bigPdu 1 0x0800 lab6 [1, 2, 3]).st = esSent := by decide +kernel
example : (encap crc0 ⟨true, 3, 1, some lab3⟩ bigPdu 1 0x0800 lab6 [1, 2, 3, 4, 5, 6, 7, 8]).res
    = .err .sizeBuffer := by decide +kernel

theorem C09_atomic_encapExt (crc : CrcFn) (es : Enc) (pdu : Bytes) (fid pt : Nat) (label : Label)
    (buf : Bytes) (exts : List Ext) (hwf : ExtOk exts) (e : EncErr)
    (he : (encapExt crc es pdu fid pt label buf exts).res = .err e) :
    (encapExt crc es pdu fid pt label buf exts).buf = buf ∧
    (encapExt crc es pdu fid pt label buf exts).st = es := by
  have h := encapExt_cases crc es pdu fid pt label buf exts hwf
  dsimp only at h
  rcases h with ⟨_, h⟩ | ⟨_, _, ⟨_, h⟩ | ⟨_, ⟨_, h⟩ | ⟨_, ⟨_, h⟩ | ⟨_, ⟨_, h⟩ | ⟨_, _, h⟩ |
    ⟨_, _, _, h⟩ | ⟨_, _, _, _, h⟩⟩⟩⟩⟩ <;> rw [h] at he ⊢ <;> first | exact ⟨rfl, rfl⟩ | cases he

example : (encapExt crc0 esSent bigPdu 1 0x0800 lab6 [1, 2, 3] [ext2]).res = .err .sizeBuffer ∧
    (encapExt crc0 esSent bigPdu 1 0x0800 lab6 [1, 2, 3] [ext2]).st = esSent := by decide +kernel

theorem C09_atomic_encapFrag (pdu : Bytes) (ctx : FragCtx) (buf : Bytes) (e : EncErr)
    (he : (encapFrag pdu ctx buf).1 = .err e) : (encapFrag pdu ctx buf).2 = buf := by
  have h := encapFrag_cases pdu ctx buf
  dsimp only at h
  rcases h with ⟨_, h⟩ | ⟨_, _, h⟩ | ⟨_, _, _, _, _, h, _⟩ | ⟨_, _, _, h⟩ <;> rw [h] at he ⊢ <;>
    first | rfl | cases he

/-- only the CRC remains and it does not fit: refused, buffer untouched -/
example : encapFrag smallPdu ⟨1, 0, 10⟩ [1, 2, 3, 4, 5, 6] = (.err .sizeBuffer, [1, 2, 3, 4, 5, 6]) := by
  decide +kernel

/-! ### 3. Rejections: an error, never a packet -/

/-- zero 6-byte label (reserved: its header would read as padding) -/
theorem C09_rejects_zero_label (crc : CrcFn) (es : Enc) (pdu : Bytes) (fid pt : Nat) (buf : Bytes) :
    (encap crc es pdu fid pt (.six 0 0 0 0 0 0) buf).res = .err .invalidLabel := by
  show (encap crc es pdu fid pt zeroLabel buf).res = _
  rw [encap_zero_label]

example : (encap crc0 Enc.new smallPdu 1 0x0800 (.six 0 0 0 0 0 0) buf40).res
    = .err .invalidLabel := by decide +kernel

/-- `encap_ext` checks the extension list and the protocol type before the label, so the error
may be one of those; it is never a packet (and no `ExtOk` is needed) -/
theorem C09_rejects_zero_label_ext (crc : CrcFn) (es : Enc) (pdu : Bytes) (fid pt : Nat)
    (buf : Bytes) (exts : List Ext) :
    ∃ e, (encapExt crc es pdu fid pt (.six 0 0 0 0 0 0) buf exts).res = .err e := by
  show ∃ e, (encapExt crc es pdu fid pt zeroLabel buf exts).res = .err e
  cases hlast : exts.getLast? with
  | none =>
    have : exts = [] := List.getLast?_eq_none_iff.mp hlast
    subst this
    exact ⟨_, by rw [encapExt_nil]⟩
  | some lastExt =>
    by_cases hfm : pt < MAX_MANDATORY_VAL_PTYPE ∧ (lastExt.id ≠ pt ∨ lastExt.kind ≠ .mandatory)
    · exact ⟨_, by rw [encapExt_err_finalMandatory hlast hfm]⟩
    by_cases hpt : MAX_MANDATORY_VAL_PTYPE ≤ pt ∧ pt < SECOND_RANGE_PTYPE
    · exact ⟨_, by rw [encapExt_bad_ptype hlast hpt]⟩
    exact ⟨_, by rw [encapExt_zero_label hlast hfm hpt rfl]⟩

example : (encapExt crc0 Enc.new smallPdu 1 0x0800 (.six 0 0 0 0 0 0) buf40 [ext2]).res
    = .err .invalidLabel := by decide +kernel

/-- protocol type in 0x0100..=0x05FF (the range of optional extension headers) -/
theorem C09_rejects_ptype (crc : CrcFn) (es : Enc) (pdu : Bytes) (fid pt : Nat) (label : Label)
    (buf : Bytes) (h1 : 0x100 ≤ pt) (h2 : pt < 0x600) :
    (encap crc es pdu fid pt label buf).res = .err .protocolType ∨
    (label = .six 0 0 0 0 0 0 ∧ (encap crc es pdu fid pt label buf).res = .err .invalidLabel) := by
  have hpt : MAX_MANDATORY_VAL_PTYPE ≤ pt ∧ pt < SECOND_RANGE_PTYPE := by
    simp only [MAX_MANDATORY_VAL_PTYPE, SECOND_RANGE_PTYPE]; omega
  by_cases hz : label = zeroLabel
  · right; subst hz; exact ⟨rfl, by rw [encap_zero_label]⟩
  · left; rw [encap_bad_ptype hz hpt]

example : (encap crc0 Enc.new smallPdu 1 0x0100 lab6 buf40).res = .err .protocolType ∧
    (encap crc0 Enc.new smallPdu 1 0x05FF lab6 buf40).res = .err .protocolType := by
  decide +kernel
/-- the bounds are tight -/
example : (encap crc0 Enc.new smallPdu 1 0x00FF lab6 buf40).res = .ok (.completed 20) ∧
    (encap crc0 Enc.new smallPdu 1 0x0600 lab6 buf40).res = .ok (.completed 20) := by
  decide +kernel

theorem C09_rejects_ptype_ext (crc : CrcFn) (es : Enc) (pdu : Bytes) (fid pt : Nat) (label : Label)
    (buf : Bytes) (exts : List Ext) (h1 : 0x100 ≤ pt) (h2 : pt < 0x600) :
    (encapExt crc es pdu fid pt label buf exts).res = .err .protocolType ∨
    (exts = [] ∧ (encapExt crc es pdu fid pt label buf exts).res = .err .noExtensionFound) := by
  have hpt : MAX_MANDATORY_VAL_PTYPE ≤ pt ∧ pt < SECOND_RANGE_PTYPE := by
    simp only [MAX_MANDATORY_VAL_PTYPE, SECOND_RANGE_PTYPE]; omega
  cases hlast : exts.getLast? with
  | none =>
    have : exts = [] := List.getLast?_eq_none_iff.mp hlast
    subst this
    right; exact ⟨rfl, by rw [encapExt_nil]⟩
  | some lastExt => left; rw [encapExt_bad_ptype hlast hpt]

example : (encapExt crc0 Enc.new smallPdu 1 0x0234 lab6 buf40 [ext2]).res = .err .protocolType := by
  decide +kernel

/-- PDU exceeding the 16-bit total length (`pdu + protocol type + label`, with the label actually
written, i.e. after re-use substitution): such a PDU can never be a complete packet, and the
fragmenting path refuses it — with `ErrorSizeBuffer` if the buffer cannot even hold a
first-fragment header, else `ErrorPduLength`. -/
theorem C09_rejects_long_pdu (crc : CrcFn) (es : Enc) (pdu : Bytes) (fid pt : Nat) (label : Label)
    (buf : Bytes)
    (h : pdu.length + 2 + (checkLabelReUse es label).1.len > 65535) :
    ∃ e, (encap crc es pdu fid pt label buf).res = .err e ∧
      (label ≠ .six 0 0 0 0 0 0 → ¬(0x100 ≤ pt ∧ pt < 0x600) →
        e = if buf.length < 7 + (checkLabelReUse es label).1.len then .sizeBuffer else .pduLength) := by
  have hc := encap_cases crc es pdu fid pt label buf
  dsimp only at hc
  have hnum : ∀ P : Prop, (MAX_MANDATORY_VAL_PTYPE ≤ pt ∧ pt < SECOND_RANGE_PTYPE → P) →
      ((0x100 ≤ pt ∧ pt < 0x600) → P) := fun P hP h' => hP (by
    simp only [MAX_MANDATORY_VAL_PTYPE, SECOND_RANGE_PTYPE]; omega)
  rcases hc with ⟨hz, ho⟩ | ⟨_, hpt, ho⟩ | ⟨_, _, hf, _⟩ | ⟨_, _, _, hb, ho⟩ | ⟨_, _, _, hb, _, ho⟩ |
    ⟨_, _, _, _, ht, _⟩
  · exact ⟨_, by rw [ho], fun hz' => absurd hz hz'⟩
  · refine ⟨_, by rw [ho], fun _ hpt' => absurd ?_ hpt'⟩
    simp only [MAX_MANDATORY_VAL_PTYPE, SECOND_RANGE_PTYPE] at hpt; omega
  · exfalso; gse_omega
  · refine ⟨_, by rw [ho], fun _ _ => ?_⟩
    rw [if_pos (by gse_omega)]
  · refine ⟨_, by rw [ho], fun _ _ => ?_⟩
    rw [if_neg (by gse_omega)]
  · exfalso; gse_omega

/-- a 65 530-byte PDU with a 6-byte label: 65 538 > 65 535 -/
example : (encap crc0 Enc.new (List.replicate 65530 0) 1 0x0800 lab6 buf40).res = .err .pduLength ∧
    (encap crc0 Enc.new (List.replicate 65530 0) 1 0x0800 lab6 [1, 2, 3]).res = .err .sizeBuffer := by
  decide +kernel
/-- the bound is tight: 65 527 + 2 + 6 = 65 535 is accepted -/
example : (encap crc0 Enc.new (List.replicate 65527 0) 1 0x0800 lab6 buf40).res
    = .ok (.fragmented 40 ⟨1, 0xDEADBEEF, 27⟩) := by decide +kernel

theorem C09_rejects_long_pdu_ext (crc : CrcFn) (es : Enc) (pdu : Bytes) (fid pt : Nat)
    (label : Label) (buf : Bytes) (exts : List Ext)
    (h : pdu.length + 2 + (checkLabelReUse es label).1.len > 65535) :
    ∃ e, (encapExt crc es pdu fid pt label buf exts).res = .err e := by
  cases hlast : exts.getLast? with
  | none =>
    have : exts = [] := List.getLast?_eq_none_iff.mp hlast
    subst this
    exact ⟨_, by rw [encapExt_nil]⟩
  | some lastExt =>
    by_cases hfm : pt < MAX_MANDATORY_VAL_PTYPE ∧ (lastExt.id ≠ pt ∨ lastExt.kind ≠ .mandatory)
    · exact ⟨_, by rw [encapExt_err_finalMandatory hlast hfm]⟩
    by_cases hpt : MAX_MANDATORY_VAL_PTYPE ≤ pt ∧ pt < SECOND_RANGE_PTYPE
    · exact ⟨_, by rw [encapExt_bad_ptype hlast hpt]⟩
    by_cases hz : label = zeroLabel
    · exact ⟨_, by rw [encapExt_zero_label hlast hfm hpt hz]⟩
    have hq : checkLabelReUse es label
        = ((checkLabelReUse es label).1, (checkLabelReUse es label).2) := rfl
    generalize (checkLabelReUse es label).1 = lbl at h hq
    have hnf : ¬(FIXED_HEADER_LEN + PROTOCOL_LEN + lbl.len + extLen pt exts + pdu.length
          ≤ buf.length ∧ pdu.length + lbl.len + PROTOCOL_LEN + extLen pt exts ≤ GSE_LEN_MAX) := by
      gse_omega
    by_cases hb : buf.length < FIXED_HEADER_LEN + PROTOCOL_LEN + lbl.len + extLen pt exts
        + FRAG_ID_LEN + TOTAL_LENGTH_LEN
    · exact ⟨_, by rw [encapExt_err_sizeBuffer hlast hfm hpt hz hq hnf hb]⟩
    · exact ⟨_, by rw [encapExt_err_pduLength hlast hfm hpt hz hq hnf (Nat.le_of_not_lt hb)
        (Or.inl (by gse_omega))]⟩

example : (encapExt crc0 Enc.new (List.replicate 65530 0) 1 0x0800 lab6 buf40 [ext2]).res
    = .err .pduLength := by decide +kernel

/-- context pointing beyond the PDU -/
theorem C09_rejects_ctx_beyond (pdu : Bytes) (ctx : FragCtx) (buf : Bytes)
    (h : ctx.pos > pdu.length) : (encapFrag pdu ctx buf).1 = .err .pduLength := by
  rw [encapFrag_beyond h]

example : (encapFrag smallPdu ⟨1, 0, 11⟩ buf40).1 = .err .pduLength := by decide +kernel
/-- tight: `pos = |pdu|` is an (empty) end packet -/
example : (encapFrag smallPdu ⟨1, 0, 10⟩ buf40).1 = .ok (.completed 7) := by decide +kernel

/-- the previews refuse the same inputs with the same errors -/
theorem C09_rejects_preview (pduLen pt : Nat) (label : Label) (bufLen : Nat) :
    encapPreview pduLen pt (.six 0 0 0 0 0 0) bufLen = .err .invalidLabel ∧
    (label ≠ .six 0 0 0 0 0 0 → 0x100 ≤ pt → pt < 0x600 →
      encapPreview pduLen pt label bufLen = .err .protocolType) ∧
    (∀ ctx : FragCtx, ctx.pos > pduLen → encapFragPreview pduLen ctx bufLen = .err .pduLength) := by
  refine ⟨?_, ?_, ?_⟩
  · unfold encapPreview
    simp only []
    rw [if_pos (show Label.six 0 0 0 0 0 0 = zeroLabel from rfl)]
  · intro hz h1 h2
    unfold encapPreview
    simp only []
    rw [if_neg (show ¬label = zeroLabel from hz), if_pos (by simp only [MAX_MANDATORY_VAL_PTYPE, SECOND_RANGE_PTYPE]; omega)]
  · intro ctx h
    unfold encapFragPreview
    simp only []
    rw [if_pos h]

example : encapPreview 10 0x0234 lab6 40 = .err .protocolType := by decide

end Gse

#print axioms Gse.C09_total_encap
#print axioms Gse.C09_total_encapFrag
#print axioms Gse.C09_total_encapExt
#print axioms Gse.C09_total_preview
#print axioms Gse.C09_total_fragPreview
#print axioms Gse.C09_atomic_encap
#print axioms Gse.C09_atomic_encapExt
#print axioms Gse.C09_atomic_encapFrag
#print axioms Gse.C09_rejects_zero_label
#print axioms Gse.C09_rejects_zero_label_ext
#print axioms Gse.C09_rejects_ptype
#print axioms Gse.C09_rejects_ptype_ext
#print axioms Gse.C09_rejects_long_pdu
#print axioms Gse.C09_rejects_long_pdu_ext
#print axioms Gse.C09_rejects_ctx_beyond
#print axioms Gse.C09_rejects_preview
