/-
Property C07 (first sentence) — "When several PDUs are fragmented under fragment ids that the
receiver memory tracks separately, their packets may be interleaved in any order that preserves each
PDU's own order, together with complete packets and packets of unknown fragment ids; each PDU is then
delivered exactly once, at its own end fragment, intact and with its own metadata."

Quantifiers: every CRC calculator `crc`, every extension manager `mgr`, ANY number of trains
(`trains : List TrainSpec`), each with any PDU, any schedule of output-buffer sizes (any number of
fragments), 3/6-byte or broadcast label written in full, protocol type 0x0600..=0xFFFF, fragment id
0..=255; fragment ids pairwise different modulo the number of slots of the receiver (tracked
separately); ALL order-preserving merges (`Merge`, an inductive predicate; every element of the
merged sequence is tagged with its origin) with ANY number of foreign buffers inserted at ANY
position: stray intermediate / end packets of other ids — ids aliasing a train's id modulo the number
of slots included, accepted or rejected —, complete packets, padding, buffers refused before
dispatch, any packet of an id that uses another slot, and late duplicates of a train that has
already been delivered (`ForeignNow`: foreign to every train not finished yet); every receiver state
satisfying `Dec.Inv` (every reachable state, `C05_inv_reachable`) in which the trains' slots are
free.  No bound anywhere.

Resources.  `C07_merge` takes the resource hypothesis in its weakest form, along the run
(`Resourced`): whenever the first fragment of a train arrives, a storage able to hold that train's
PDU is on top of the free list.  `C07_merge_static` derives it from a static condition on the
initial state: every storage of the receiver has `L` bytes, every PDU fits in `L` bytes, and the free
list holds at least as many storages as there are first fragments and complete packets in the merged
sequence (`storageDemand`) — by `C07_storages_step`, one `decap` call takes at most one storage off
the free list, and only for those two kinds.

Strays.  `C07_stray_rejected` / `C07_unknown_ids_rejected` / `C07_merge_strays_rejected`: a stray
intermediate or end packet of an id without a reassembly in progress is refused and leaves the memory
exactly as it is.

Vocabulary (Lemmas/Merge.lean): `ForeignTo n fid buf`, `TrainSpec`, `TrainSpec.packets`,
`TrainSpec.Valid`, `Merge`, `ForeignNow`, `pick`, `Resourced`, `storageDemand`, `Mem.Big`, `OnlyIds`;
(Lemmas/FragRoundtrip.lean) `Sync`, `rxRun`, `fragSends`, `fragPackets`, `fragOut`.
-/
import GseVerif.Lemmas.Merge
import GseVerif.Props.C02

namespace Gse
open Gen DFix

/-! Fixtures for the `example`s: a receiver with 2 slots and three free 12-byte storages (top first:
1, 2, 3); train A (10-byte PDU, 6-byte label, fragment id 1) and train B (9-byte PDU, 3-byte label,
fragment id 2, sent by the same encapsulator right after A's first fragment), three fragments each;
a stray intermediate packet of id 3 (aliases id 1 on slot 1), a stray end packet of id 5 (aliases
ids 1 and 3), a complete packet (broadcast label, 3 bytes). -/
namespace C07m
def crcM : CrcFn := fun _ _ _ _ => 0xDEADBEEF
def labA : Label := .six 1 2 3 4 5 6
def labB : Label := .three 7 8 9
def pduA : Bytes := [0xA0, 0xA1, 0xA2, 0xA3, 0xA4, 0xA5, 0xA6, 0xA7, 0xA8, 0xA9]
def pduB : Bytes := [0xB0, 0xB1, 0xB2, 0xB3, 0xB4, 0xB5, 0xB6, 0xB7, 0xB8]
/-- train A: first buffer 16 bytes (3 PDU bytes), then 7 bytes (4 PDU bytes), then the end packet -/
def trA : TrainSpec := ⟨Enc.new, pduA, 1, 0x0800, labA, List.replicate 16 0, [7, 100]⟩
/-- train B: first buffer 13 bytes (3 PDU bytes), a 2-byte buffer (refused), 6 bytes (3 PDU bytes),
then the end packet -/
def trB : TrainSpec :=
  ⟨(trA.enc crcM).st, pduB, 2, 0x86DD, labB, List.replicate 13 0, [2, 6, 100]⟩
def a0 : Bytes := [0x80, 0x0E, 1, 0, 18, 0x08, 0x00, 1, 2, 3, 4, 5, 6, 0xA0, 0xA1, 0xA2]
def a1 : Bytes := [0x30, 0x05, 1, 0xA3, 0xA4, 0xA5, 0xA6]
def a2 : Bytes := [0x70, 0x08, 1, 0xA7, 0xA8, 0xA9, 0xDE, 0xAD, 0xBE, 0xEF]
def b0 : Bytes := [0x90, 0x0B, 2, 0, 14, 0x86, 0xDD, 7, 8, 9, 0xB0, 0xB1, 0xB2]
def b1 : Bytes := [0x30, 0x04, 2, 0xB3, 0xB4, 0xB5]
def b2 : Bytes := [0x70, 0x08, 2, 0xB6, 0xB7, 0xB8, 0xDE, 0xAD, 0xBE, 0xEF]
def stoM (i : Nat) : Storage := ⟨i, List.replicate 12 0xEE⟩
/-- 2 slots, three free 12-byte storages -/
def dsM : Dec :=
  (Dec.new 2 12).run zcrc simpleMgr [.provision (stoM 3), .provision (stoM 2), .provision (stoM 1)]
/-- the interleaving: A₀, stray intermediate of id 3, B₀, A₁, a complete packet, B₁, stray end of
id 5, B₂ (delivers B), A₂ (delivers A), and a late duplicate of A₂ -/
def taggedM : List (Option Nat × Bytes) :=
  [(some 0, a0), (none, pInter 3), (some 1, b0), (some 0, a1), (none, pComplete), (some 1, b1),
   (none, pEnd 5), (some 1, b2), (some 0, a2), (none, a2)]
/-- the receiver after A₀ and B₀ -/
def dsAB : Dec := (rxRun crcM simpleMgr dsM [a0, b0]).2
def fragA (n : Nat) : Res DecErr DecStatus × Nat := (.ok (.fragmented ⟨0, 0x0800, labA, []⟩), n)
def fragB (n : Nat) : Res DecErr DecStatus × Nat := (.ok (.fragmented ⟨0, 0x86DD, labB, []⟩), n)
end C07m
open C07m

theorem C07m.pkts : trA.packets crcM = [a0, a1, a2] ∧ trB.packets crcM = [b0, b1, b2] := by
  decide +kernel

theorem C07m.dsM_eq : dsM = ⟨⟨[stoM 1, stoM 2, stoM 3], [none, none], 2, 12, 4⟩, none⟩ := by decide
theorem C07m.dsM_inv : dsM.Inv := C05_inv_reachable zcrc simpleMgr 2 12 _

theorem C07m.validA : trA.Valid crcM :=
  ⟨⟨16, ⟨1, 0xDEADBEEF, 3⟩, by decide +kernel, by decide +kernel, by decide⟩, by decide, by decide,
    by decide, by decide, by decide⟩
theorem C07m.validB : trB.Valid crcM :=
  ⟨⟨13, ⟨2, 0xDEADBEEF, 3⟩, by decide +kernel, by decide +kernel, by decide⟩, by decide +kernel,
    by decide, by decide, by decide, by decide⟩

/-- after A₀ and B₀ the receiver is in step with A's sender (A is reassembled in storage 1, B in
storage 2) -/
theorem C07m.syncA : Sync crcM pduA 1 labA labA 0x0800 1 ⟨1, 0xDEADBEEF, 3⟩ dsAB :=
  ⟨by decide +kernel, by decide +kernel, by decide, by decide, fun _ => rfl, rfl, rfl, by decide,
    ⟨1, pduA.take 3 ++ List.replicate 9 0xEE⟩, by decide +kernel, rfl, by decide, by decide⟩
theorem C07m.dsAB_inv : dsAB.Inv :=
  C05_inv_decap _ _ _ _ (C05_inv_decap _ _ _ _ dsM_inv)

/-! ### 1. Foreign buffers leave a reassembly in progress in step -/

/-- (a) an intermediate or end packet — the header says so and the buffer holds the whole packet —
whose fragment id byte is not `fid` is foreign to `fid`, whatever the number of slots: ids aliasing
`fid` included -/
theorem C07_foreign_stray (n fid : Nat) (buf : Bytes) {w gseLen : Nat} {k : PktType}
    {lt : LabelType} (hw : get16 buf 0 = some w) (hr : readHeader w = .ok (some (gseLen, k, lt)))
    (hl : gseLen + FIXED_HEADER_LEN ≤ buf.length) (hk : k = .inter ∨ k = .end_)
    (hj : get8 buf FIXED_HEADER_LEN ≠ some fid) : ForeignTo n fid buf := by
  refine .inr (.inr (.inl ⟨?_, hj⟩))
  rw [dispatchKind_eq hw hr hl]
  rcases hk with rfl | rfl
  · exact .inl rfl
  · exact .inr rfl

example : ForeignTo 2 1 (pInter 3) :=
  C07_foreign_stray 2 1 _ (w := 0x3002) (gseLen := 2) (k := .inter) (lt := .reuse) (by decide)
    (by decide) (by decide) (.inl rfl) (by decide)
example : ForeignTo 2 1 (pEnd 5) :=
  C07_foreign_stray 2 1 _ (w := 0x7006) (gseLen := 6) (k := .end_) (lt := .reuse) (by decide)
    (by decide) (by decide) (.inr rfl) (by decide)

/-- (b) complete packets, padding, and buffers refused before dispatch (shorter than the fixed
header or than the packet they announce: `C07_dispatchKind_none_iff`) are foreign to every id -/
theorem C07_foreign_complete_padding (n fid : Nat) (buf : Bytes)
    (hk : dispatchKind buf = none ∨ dispatchKind buf = some .complete) : ForeignTo n fid buf := by
  rcases hk with h | h
  · exact .inl h
  · exact .inr (.inl h)

example : ForeignTo 2 1 pComplete ∧ ForeignTo 2 1 pPad ∧ ForeignTo 2 1 [0xA0] ∧
    ForeignTo 2 1 [0xA0, 0x08, 1, 0] :=
  ⟨C07_foreign_complete_padding _ _ _ (.inr (by decide)),
   C07_foreign_complete_padding _ _ _ (.inl (by decide)),
   C07_foreign_complete_padding _ _ _ (.inl (by decide)),
   C07_foreign_complete_padding _ _ _ (.inl (by decide))⟩

/-- (c) any packet — in particular a first fragment — whose fragment id byte designates another
slot is foreign to `fid` -/
theorem C07_foreign_other_slot (n fid : Nat) (buf : Bytes) {j : Nat}
    (hj : get8 buf FIXED_HEADER_LEN = some j) (hs : j % n ≠ fid % n) : ForeignTo n fid buf :=
  .inr (.inr (.inr ⟨j, hj, hs⟩))

example : ForeignTo 2 1 (pFirst 2) := C07_foreign_other_slot 2 1 _ (j := 2) (by decide) (by decide)
-- a first fragment of the aliasing id 3 is NOT foreign to id 1: it claims the slot (`C07_restart`)
example : ¬ ForeignTo 2 1 (pFirst 3) := by decide

/-- **A foreign buffer never touches the slot.**  Slot `fid % n` holds nothing or a context of id
`fid`; `buf` is foreign to `fid`: after `decap` of `buf`, accepted or rejected, the slot is exactly
as it was. -/
theorem C07_slot_foreign (crc : CrcFn) (mgr : MgrFn) (ds : Dec) (buf : Bytes) (hI : ds.Inv)
    (fid : Nat) (hf : ForeignTo ds.mem.maxFragId fid buf)
    (hown : ∀ c s, ds.mem.frags[fid % ds.mem.maxFragId]? = some (some (c, s)) → c.fragId = fid) :
    (decap crc mgr ds buf).st.mem.frags[fid % ds.mem.maxFragId]?
      = ds.mem.frags[fid % ds.mem.maxFragId]? :=
  decap_slot_foreign crc mgr ds buf hI hf hown

example : (decap crcM simpleMgr dsAB (pInter 3)).st.mem.frags[1 % dsAB.mem.maxFragId]?
    = dsAB.mem.frags[1 % dsAB.mem.maxFragId]? :=
  C07_slot_foreign _ _ _ _ dsAB_inv 1 (by decide) syncA.own

/-- **Stability of the round-trip invariant.**  Sender and receiver are in step for the PDU sent
under `fid` (`Sync`: the slot holds this PDU's context and its first `ctx.pos` bytes); `buf` is
foreign to `fid`.  After `decap` of `buf` — accepted or rejected, whatever it does to the free list,
the label memory and the other slots — they are still in step: same sender context `ctx`, same
storage `sid`, same bytes. -/
theorem C07_sync_stable (crc : CrcFn) (mgr : MgrFn) (pdu : Bytes) (fid : Nat) (lblW cur : Label)
    (pt sid : Nat) (ctx : FragCtx) (ds : Dec) (buf : Bytes)
    (hS : Sync crc pdu fid lblW cur pt sid ctx ds) (hI : ds.Inv)
    (hf : ForeignTo ds.mem.maxFragId fid buf) :
    Sync crc pdu fid lblW cur pt sid ctx (decap crc mgr ds buf).st :=
  hS.foreign mgr hI hf

-- the stray intermediate of the aliasing id 3, the stray end of id 5, a complete packet, padding,
-- and B's own next packet (id 2, other slot) all leave train A in step
example := C07_sync_stable crcM simpleMgr pduA 1 labA labA 0x0800 1 ⟨1, 0xDEADBEEF, 3⟩ dsAB (pInter 3)
  syncA dsAB_inv (by decide)
example := C07_sync_stable crcM simpleMgr pduA 1 labA labA 0x0800 1 ⟨1, 0xDEADBEEF, 3⟩ dsAB (pEnd 5)
  syncA dsAB_inv (by decide)
example := C07_sync_stable crcM simpleMgr pduA 1 labA labA 0x0800 1 ⟨1, 0xDEADBEEF, 3⟩ dsAB pComplete
  syncA dsAB_inv (by decide)
example := C07_sync_stable crcM simpleMgr pduA 1 labA labA 0x0800 1 ⟨1, 0xDEADBEEF, 3⟩ dsAB pPad
  syncA dsAB_inv (by decide)
example := C07_sync_stable crcM simpleMgr pduA 1 labA labA 0x0800 1 ⟨1, 0xDEADBEEF, 3⟩ dsAB b1
  syncA dsAB_inv (by decide)

/-- **Strays are harmless.**  A reassembly in step with its sender; then any number of foreign
buffers (stray intermediate / end packets of other ids, aliasing or not, accepted or rejected;
complete packets; padding; garbage; packets of ids in other slots); then the rest of the train, over
any output buffers that lead to the end packet.  The reassembly is still in step after the strays,
and the rest of the train is answered as if nothing had happened: `FragmentedPkt` with protocol
type and label for every packet but the last, then `CompletedPkt` with the storage `sid` holding
exactly the PDU, and the PDU's metadata; every call consumes the length `encap_frag` reported. -/
theorem C07_stray_harmless (crc : CrcFn) (mgr : MgrFn) (pdu : Bytes) (fid : Nat) (lblW cur : Label)
    (pt sid : Nat) (ctx : FragCtx) (ds : Dec) (strays bufs : List Bytes)
    (hS : Sync crc pdu fid lblW cur pt sid ctx ds) (hI : ds.Inv) (hc32 : ctx.crc < 2 ^ 32)
    (hF : ∀ b ∈ strays, ForeignTo ds.mem.maxFragId fid b)
    (hfin : (fragSends pdu ctx bufs).2 = none) :
    Sync crc pdu fid lblW cur pt sid ctx (rxRun crc mgr ds strays).2 ∧
    ∃ init nLast st, (fragSends pdu ctx bufs).1.map Prod.fst = init ++ [nLast] ∧
      (rxRun crc mgr (rxRun crc mgr ds strays).2 ((fragSends pdu ctx bufs).1.map Prod.snd)).1
        = init.map (fragOut pt cur)
          ++ [(.ok (.completed st ⟨pdu.length, pt, cur, []⟩), nLast)] ∧
      st.id = sid ∧ st.data.take pdu.length = pdu := by
  have key : ∀ (strays : List Bytes) (ds : Dec), Sync crc pdu fid lblW cur pt sid ctx ds → ds.Inv →
      (∀ b ∈ strays, ForeignTo ds.mem.maxFragId fid b) →
      Sync crc pdu fid lblW cur pt sid ctx (rxRun crc mgr ds strays).2 := by
    intro strays
    induction strays with
    | nil => intro ds hS _ _; exact hS
    | cons b rest ih =>
      intro ds hS hI hF
      simp only [rxRun]
      refine ih _ (hS.foreign mgr hI (hF b List.mem_cons_self)) (C05_inv_decap crc mgr ds b hI) ?_
      intro b' hb'
      rw [decap_cfg crc mgr ds b hI]
      exact hF b' (List.mem_cons_of_mem _ hb')
  have hS' := key strays ds hS hI hF
  refine ⟨hS', ?_⟩
  obtain ⟨init, nLast, st, h1, h2, h3, h4, -, -⟩ :=
    (sync_run crc mgr (by rw [← hS.ctx_crc]; exact hc32) bufs ctx _ hS').2.2 hfin
  exact ⟨init, nLast, st, h1, h2, h3, h4⟩

-- train A in step after A₀, B₀; then a stray intermediate of id 3, a stray end of id 5, a complete
-- packet, padding and B₁; then A₁ and A₂ (buffers of 7 and 100 bytes): A is delivered intact
example : (fragSends pduA ⟨1, 0xDEADBEEF, 3⟩ (zeroBufs [7, 100])).2 = none ∧
    (fragSends pduA ⟨1, 0xDEADBEEF, 3⟩ (zeroBufs [7, 100])).1 = [(7, a1), (10, a2)] := by
  decide +kernel
example := C07_stray_harmless crcM simpleMgr pduA 1 labA labA 0x0800 1 ⟨1, 0xDEADBEEF, 3⟩ dsAB
  [pInter 3, pEnd 5, pComplete, pPad, b1] (zeroBufs [7, 100]) syncA dsAB_inv (by decide) (by decide)
  (by decide +kernel)
example : (rxRun crcM simpleMgr dsAB [pInter 3, pEnd 5, pComplete, pPad, b1, a1, a2]).1
    = [(.err (.memory .undefinedId), 4), (.err (.memory .undefinedId), 8),
       (.ok (.completed ⟨3, [0x21, 0x22, 0x23] ++ List.replicate 9 0xEE⟩ ⟨3, 0x0800, .broadcast, []⟩), 7),
       (.ok .padding, 3), fragB 6, fragA 7,
       (.ok (.completed ⟨1, pduA ++ [0xEE, 0xEE]⟩ ⟨10, 0x0800, labA, []⟩), 10)] := by
  decide +kernel

/-- **Strays of an unknown id are refused and change nothing.**  An intermediate or end packet whose
fragment id `j` has no reassembly in progress (`ctxOf ds j = none`: the slot is empty, or holds a
context of another id sharing it) is refused and leaves the memory — free list, every slot —
exactly as it is; when it announces a payload (a CRC) the answer is `UndefinedId` and the whole
receiver state is unchanged, otherwise it is refused as malformed. -/
theorem C07_stray_rejected (crc : CrcFn) (mgr : MgrFn) (ds : Dec) (buf : Bytes) (hI : ds.Inv)
    {g j : Nat} {k : PktType} {lt : LabelType} (hd : dispatch buf = some (g, k, lt))
    (hk : k = .inter ∨ k = .end_) (hj : get8 buf FIXED_HEADER_LEN = some j)
    (hnone : ctxOf ds j = none) :
    (decap crc mgr ds buf).st.mem = ds.mem ∧
      (((decap crc mgr ds buf).res = .err (.memory .undefinedId) ∧ (decap crc mgr ds buf).st = ds) ∨
        (decap crc mgr ds buf).res = .err .gseLength ∨
        (decap crc mgr ds buf).res = .err .sizeBuffer) :=
  decap_stray_rejected crc mgr ds buf hI hd hk hj hnone

example : dispatch (pInter 3) = some (2, .inter, .reuse) ∧ ctxOf dsAB 3 = none ∧
    dispatch (pEnd 5) = some (6, .end_, .reuse) ∧ ctxOf dsAB 5 = none ∧ (ctxOf dsAB 1).isSome := by
  decide +kernel
example := C07_stray_rejected crcM simpleMgr dsAB (pInter 3) dsAB_inv (g := 2) (j := 3) (k := .inter)
  (lt := .reuse) (by decide) (.inl rfl) (by decide) (by decide +kernel)
example := C07_stray_rejected crcM simpleMgr dsAB (pEnd 5) dsAB_inv (g := 6) (j := 5) (k := .end_)
  (lt := .reuse) (by decide) (.inr rfl) (by decide) (by decide +kernel)

/-! ### 2. Interleaved trains -/

/-- the fixture is a merge: the two trains in order; three strays and a late duplicate, none of them
a first fragment, in between -/
theorem C07m.mergeM' :
    Merge (fun rems b => ForeignNow 2 [trA, trB] rems b ∧ dispatchKind b ≠ some .first)
      ([trA, trB].map (·.packets crcM)) taggedM := by
  have h : [trA, trB].map (·.packets crcM) = [[a0, a1, a2], [b0, b1, b2]] := by
    simp only [List.map_cons, List.map_nil, pkts.1, pkts.2]
  rw [h]
  refine .take (i := 0) (r := [a1, a2]) rfl <| .foreign ⟨.of_all (by decide), by decide⟩ <|
    .take (i := 1) (r := [b1, b2]) rfl <| .take (i := 0) (r := [a2]) rfl <|
    .foreign ⟨.of_all (by decide), by decide⟩ <| .take (i := 1) (r := [b2]) rfl <|
    .foreign ⟨.of_all (by decide), by decide⟩ <| .take (i := 1) (r := []) rfl <|
    .take (i := 0) (r := []) rfl <| .foreign ⟨?_, by decide⟩ <| .done (by decide)
  -- the late duplicate of A₂: both trains are finished, nothing is left to be foreign to
  intro i t r _ hr hne
  match i, hr with
  | 0, hr => exact absurd (Option.some.inj hr).symm hne
  | 1, hr => exact absurd (Option.some.inj hr).symm hne
  | _ + 2, hr => cases hr

theorem C07m.mergeM :
    Merge (ForeignNow 2 [trA, trB]) ([trA, trB].map (·.packets crcM)) taggedM :=
  mergeM'.mono (fun _ _ h => h.1)

/-- **C07, interleaved trains.**  Any number of valid trains whose fragment ids use pairwise
different slots of the receiver; a receiver state satisfying the invariant with those slots free;
`tagged` ANY merge of the trains' packet lists with foreign buffers inserted anywhere; whenever a
first fragment arrives a storage able to hold its PDU is on top of the free list (`Resourced`).
Then, for every train `t`, the answers to `t`'s packets — picked out of the answers of `rxRun` to
the whole merged sequence — are exactly those `t` gets alone (`C02_roundtrip`): with
`t.packets = init ++ [last]`, `FragmentedPkt` carrying `t`'s protocol type and label for every
packet of `init`, and for `last` — the end fragment, and only for it — `CompletedPkt` with a storage
that starts with exactly `t`'s PDU and the metadata (PDU length, protocol type, label, no
extensions); every call consumes exactly its packet. -/
theorem C07_merge (crc : CrcFn) (mgr : MgrFn) (trains : List TrainSpec) (ds : Dec)
    (tagged : List (Option Nat × Bytes))
    (hv : ∀ t ∈ trains, t.Valid crc) (hI : ds.Inv) (h0 : ds.mem.maxFragId ≠ 0)
    (hdist : trains.Pairwise
      (fun a b => a.fid % ds.mem.maxFragId ≠ b.fid % ds.mem.maxFragId))
    (hfree : ∀ t ∈ trains, ds.mem.frags[t.fid % ds.mem.maxFragId]? = some none)
    (hM : Merge (ForeignNow ds.mem.maxFragId trains) (trains.map (·.packets crc)) tagged)
    (hres : Resourced crc mgr trains ds tagged) :
    ∀ (i : Nat) (t : TrainSpec), trains[i]? = some t →
      ∃ init last st, t.packets crc = init ++ [last] ∧
        pick i tagged (rxRun crc mgr ds (tagged.map Prod.snd)).1
          = init.map (fun p => fragOut t.pt t.label p.length)
            ++ [(.ok (.completed st ⟨t.pdu.length, t.pt, t.label, []⟩), last.length)] ∧
        st.data.take t.pdu.length = t.pdu := by
  intro i t ht
  have hvt := hv t (List.mem_of_getElem? ht)
  have hdist' : ∀ (i j : Nat) (ti tj : TrainSpec), trains[i]? = some ti → trains[j]? = some tj →
      i ≠ j → ti.fid % ds.mem.maxFragId ≠ tj.fid % ds.mem.maxFragId := by
    intro i j ti tj hti htj hij
    obtain ⟨hi, rfl⟩ := List.getElem?_eq_some_iff.mp hti
    obtain ⟨hj, rfl⟩ := List.getElem?_eq_some_iff.mp htj
    rcases Nat.lt_or_gt_of_ne hij with h | h
    · exact List.pairwise_iff_getElem.mp hdist i j hi hj h
    · exact Ne.symm (List.pairwise_iff_getElem.mp hdist j i hj hi h)
  have hE := merge_run crc mgr trains ds.mem.maxFragId h0 hdist' hM ds hI rfl
    (by rw [List.length_map])
    (fun j tj htj => ⟨tj.packets crc, by rw [List.getElem?_map, htj]; rfl,
      .inl ⟨hv tj (List.mem_of_getElem? htj), rfl, hfree tj (List.mem_of_getElem? htj)⟩⟩)
    hres i t (t.packets crc) ht (by rw [List.getElem?_map, ht]; rfl)
  obtain ⟨n₀, ctx₀, -, hpk, -, -⟩ := hvt.packets_eq
  exact Expect.explicit _ _ (by rw [hpk]; simp) hE

/-- **One `decap` call and the storages.**  Every storage of the receiver (free, or holding a
partial PDU) has `L` bytes.  After `decap` of any buffer this is still so, and the free list has lost
at most one storage — none unless the buffer was dispatched as a first fragment or a complete
packet. -/
theorem C07_storages_step (crc : CrcFn) (mgr : MgrFn) (ds : Dec) (buf : Bytes) (L : Nat)
    (hI : ds.Inv) (hB : ds.mem.Big L) :
    (decap crc mgr ds buf).st.mem.Big L ∧
    ds.mem.storages.length ≤ (decap crc mgr ds buf).st.mem.storages.length +
      (if dispatchKind buf = some .first ∨ dispatchKind buf = some .complete then 1 else 0) :=
  ⟨(decap_roomy crc mgr ds buf hI hB).big, (decap_roomy crc mgr ds buf hI hB).len⟩

theorem C07m.dsM_big : dsM.mem.Big 12 := by
  rw [dsM_eq]
  exact ⟨by decide, by intro c s h; simp at h⟩

example := C07_storages_step crcM simpleMgr dsM a0 12 dsM_inv dsM_big
-- the complete packet takes a storage for good; a refused stray takes none
example : (decap crcM simpleMgr dsM pComplete).st.mem.storages.length = 2 ∧
    (decap crcM simpleMgr dsM (pInter 3)).st.mem.storages.length = 3 := by decide

/-- **The static resource condition.**  Every storage of the receiver has `L` bytes, every train's
PDU fits in `L` bytes, and the free list is at least as long as the number of first fragments and
complete packets in the sequence (`storageDemand`): then the resource hypothesis of `C07_merge` holds
— whatever the order of the sequence. -/
theorem C07_resourced_static (crc : CrcFn) (mgr : MgrFn) (trains : List TrainSpec) (ds : Dec)
    (tagged : List (Option Nat × Bytes)) (L : Nat)
    (hv : ∀ t ∈ trains, t.Valid crc) (hL : ∀ t ∈ trains, t.pdu.length ≤ L) (hI : ds.Inv)
    (hB : ds.mem.Big L) (hdem : storageDemand tagged ≤ ds.mem.storages.length) :
    Resourced crc mgr trains ds tagged :=
  resourced_of_static crc mgr trains L hv hL tagged ds hI hB hdem

theorem C07m.valid : ∀ t ∈ [trA, trB], t.Valid crcM := by
  intro t ht
  simp only [List.mem_cons, List.mem_nil_iff, or_false] at ht
  rcases ht with rfl | rfl
  · exact validA
  · exact validB

example : storageDemand taggedM = 3 ∧ dsM.mem.storages.length = 3 := by decide
theorem C07m.resourced : Resourced crcM simpleMgr [trA, trB] dsM taggedM :=
  C07_resourced_static crcM simpleMgr [trA, trB] dsM taggedM 12 valid (by decide) dsM_inv dsM_big
    (by decide)

/-- **C07, interleaved trains, static resources.**  As `C07_merge`, the resource hypothesis being
replaced by a condition on the initial state: every storage of the receiver has `L` bytes, every PDU
fits in `L` bytes, and the free list holds at least as many storages as there are first fragments
and complete packets in the merged sequence. -/
theorem C07_merge_static (crc : CrcFn) (mgr : MgrFn) (trains : List TrainSpec) (ds : Dec)
    (tagged : List (Option Nat × Bytes)) (L : Nat)
    (hv : ∀ t ∈ trains, t.Valid crc) (hI : ds.Inv) (h0 : ds.mem.maxFragId ≠ 0)
    (hdist : trains.Pairwise
      (fun a b => a.fid % ds.mem.maxFragId ≠ b.fid % ds.mem.maxFragId))
    (hfree : ∀ t ∈ trains, ds.mem.frags[t.fid % ds.mem.maxFragId]? = some none)
    (hM : Merge (ForeignNow ds.mem.maxFragId trains) (trains.map (·.packets crc)) tagged)
    (hL : ∀ t ∈ trains, t.pdu.length ≤ L) (hB : ds.mem.Big L)
    (hdem : storageDemand tagged ≤ ds.mem.storages.length) :
    ∀ (i : Nat) (t : TrainSpec), trains[i]? = some t →
      ∃ init last st, t.packets crc = init ++ [last] ∧
        pick i tagged (rxRun crc mgr ds (tagged.map Prod.snd)).1
          = init.map (fun p => fragOut t.pt t.label p.length)
            ++ [(.ok (.completed st ⟨t.pdu.length, t.pt, t.label, []⟩), last.length)] ∧
        st.data.take t.pdu.length = t.pdu :=
  C07_merge crc mgr trains ds tagged hv hI h0 hdist hfree hM
    (C07_resourced_static crc mgr trains ds tagged L hv hL hI hB hdem)

/-- the hypotheses of `C07_merge` / `C07_merge_static` on the fixture -/
example := C07_merge crcM simpleMgr [trA, trB] dsM taggedM valid dsM_inv (by decide) (by decide)
  (by decide) mergeM resourced
example := C07_merge_static crcM simpleMgr [trA, trB] dsM taggedM 12 valid dsM_inv (by decide)
  (by decide) (by decide) mergeM (by decide) dsM_big (by decide)

/-! ### 3. Strays of ids that no train uses are refused -/

/-- **Strays of unknown ids, along any sequence.**  Every reassembly in progress belongs to one of
the ids `ids`, and every first fragment in the sequence carries one of these ids.  Then every
intermediate or end packet of the sequence whose fragment id is not in `ids` — aliasing or not — is
refused and leaves the memory exactly as it is; the state it meets is `(rxRun … pre).2`. -/
theorem C07_unknown_ids_rejected (crc : CrcFn) (mgr : MgrFn) (ids : List Nat) (seq : List Bytes)
    (ds : Dec) (hI : ds.Inv) (hO : OnlyIds ids ds)
    (hF : ∀ b ∈ seq, dispatchKind b = some .first →
      ∃ j ∈ ids, get8 b FIXED_HEADER_LEN = some j)
    (pre : List Bytes) (b : Bytes) (post : List Bytes) (g j : Nat) (k : PktType) (lt : LabelType)
    (hsplit : seq = pre ++ b :: post) (hd : dispatch b = some (g, k, lt))
    (hk : k = .inter ∨ k = .end_) (hj : get8 b FIXED_HEADER_LEN = some j) (hji : j ∉ ids) :
    (decap crc mgr (rxRun crc mgr ds pre).2 b).st.mem = (rxRun crc mgr ds pre).2.mem ∧
    (((decap crc mgr (rxRun crc mgr ds pre).2 b).res = .err (.memory .undefinedId) ∧
        (decap crc mgr (rxRun crc mgr ds pre).2 b).st = (rxRun crc mgr ds pre).2) ∨
      (decap crc mgr (rxRun crc mgr ds pre).2 b).res = .err .gseLength ∨
      (decap crc mgr (rxRun crc mgr ds pre).2 b).res = .err .sizeBuffer) :=
  unknown_ids_rejected crc mgr ids seq ds hI hO hF pre b post g j k lt hsplit hd hk hj hji

theorem C07m.dsM_only : OnlyIds [1, 2] dsM := by
  rw [dsM_eq]
  intro k c s h
  match k, h with
  | 0, h => cases h
  | 1, h => cases h
  | _ + 2, h => cases h

-- the stray end packet of id 5, seventh in the fixture
example := C07_unknown_ids_rejected crcM simpleMgr [1, 2] (taggedM.map Prod.snd) dsM dsM_inv dsM_only
  (by decide) [a0, pInter 3, b0, a1, pComplete, b1] (pEnd 5) [b2, a2, a2] 6 5 .end_ .reuse rfl
  (by decide) (.inr rfl) (by decide) (by decide)

/-- **Interleaved trains: strays of other ids are refused and change nothing.**  A merge of valid
trains in which none of the inserted buffers is a first fragment; every reassembly in progress at
the start belongs to a train id (for instance: all slots free).  Then every intermediate or end
packet in the merged sequence whose fragment id is not a train's — aliasing a train's id or not — is
refused and leaves the memory (free list, every slot, hence every train) exactly as it is. -/
theorem C07_merge_strays_rejected (crc : CrcFn) (mgr : MgrFn) (trains : List TrainSpec) (ds : Dec)
    (F : List (List Bytes) → Bytes → Prop) (tagged : List (Option Nat × Bytes))
    (hv : ∀ t ∈ trains, t.Valid crc) (hI : ds.Inv) (hO : OnlyIds (trains.map (·.fid)) ds)
    (hF : ∀ rems b, F rems b → dispatchKind b ≠ some .first)
    (hM : Merge F (trains.map (·.packets crc)) tagged)
    (pre : List (Option Nat × Bytes)) (o : Option Nat) (b : Bytes)
    (post : List (Option Nat × Bytes)) (g j : Nat) (k : PktType) (lt : LabelType)
    (hsplit : tagged = pre ++ (o, b) :: post) (hd : dispatch b = some (g, k, lt))
    (hk : k = .inter ∨ k = .end_) (hj : get8 b FIXED_HEADER_LEN = some j)
    (hji : j ∉ trains.map (·.fid)) :
    let ds' := (rxRun crc mgr ds (pre.map Prod.snd)).2
    (decap crc mgr ds' b).st.mem = ds'.mem ∧
    (((decap crc mgr ds' b).res = .err (.memory .undefinedId) ∧ (decap crc mgr ds' b).st = ds') ∨
      (decap crc mgr ds' b).res = .err .gseLength ∨ (decap crc mgr ds' b).res = .err .sizeBuffer) :=
  unknown_ids_rejected crc mgr (trains.map (·.fid)) (tagged.map Prod.snd) ds hI hO
    (merge_firsts hv hF hM) (pre.map Prod.snd) b (post.map Prod.snd) g j k lt
    (by rw [hsplit, List.map_append, List.map_cons]) hd hk hj hji

-- the stray intermediate packet of the aliasing id 3, second in the fixture
example := C07_merge_strays_rejected crcM simpleMgr [trA, trB] dsM _ taggedM valid dsM_inv dsM_only
  (fun _ _ h => h.2) mergeM' [(some 0, a0)] none (pInter 3) (taggedM.drop 2) 2 3 .inter .reuse rfl
  (by decide) (.inl rfl) (by decide) (by decide)

/-- the fixture evaluated: both PDUs are delivered exactly once, at their own end fragments, intact
(A in storage 1, B in storage 2), with their own metadata; the strays and the late duplicate of A₂ are
refused (`UndefinedId`), the complete packet is delivered in storage 3; both slots are free again -/
example : rxRun crcM simpleMgr dsM (taggedM.map Prod.snd)
    = ([fragA 16, (.err (.memory .undefinedId), 4), fragB 13, fragA 7,
        (.ok (.completed ⟨3, [0x21, 0x22, 0x23] ++ List.replicate 9 0xEE⟩
          ⟨3, 0x0800, .broadcast, []⟩), 7),
        fragB 6, (.err (.memory .undefinedId), 8),
        (.ok (.completed ⟨2, pduB ++ [0xEE, 0xEE, 0xEE]⟩ ⟨9, 0x86DD, labB, []⟩), 10),
        (.ok (.completed ⟨1, pduA ++ [0xEE, 0xEE]⟩ ⟨10, 0x0800, labA, []⟩), 10),
        (.err (.memory .undefinedId), 10)],
       ⟨⟨[], [none, none], 2, 12, 4⟩, none⟩) := by decide +kernel
/-- … and the answers picked out for each train -/
example : pick 0 taggedM (rxRun crcM simpleMgr dsM (taggedM.map Prod.snd)).1
      = [fragA 16, fragA 7, (.ok (.completed ⟨1, pduA ++ [0xEE, 0xEE]⟩ ⟨10, 0x0800, labA, []⟩), 10)] ∧
    pick 1 taggedM (rxRun crcM simpleMgr dsM (taggedM.map Prod.snd)).1
      = [fragB 13, fragB 6,
         (.ok (.completed ⟨2, pduB ++ [0xEE, 0xEE, 0xEE]⟩ ⟨9, 0x86DD, labB, []⟩), 10)] := by
  decide +kernel

/-- the hypothesis "tracked separately" cannot be dropped: with ids 1 and 3 (same slot of a 2-slot
receiver) the second first fragment takes over the slot and the first PDU is never delivered -/
example :
    let trC : TrainSpec := { trB with fid := 3 }
    (trC.packets crcM).length = 3 ∧
    ((rxRun crcM simpleMgr dsM
      [a0, (trC.packets crcM)[0]!, a1, (trC.packets crcM)[1]!, a2, (trC.packets crcM)[2]!]).1.map
        (fun o => match o.1 with | .ok (.completed _ md) => some md.pduLen | _ => none))
      = [none, none, none, none, none, some 9] := by decide +kernel

end Gse

#print axioms Gse.C07_foreign_stray
#print axioms Gse.C07_foreign_complete_padding
#print axioms Gse.C07_foreign_other_slot
#print axioms Gse.C07_slot_foreign
#print axioms Gse.C07_sync_stable
#print axioms Gse.C07_stray_harmless
#print axioms Gse.C07_stray_rejected
#print axioms Gse.C07_merge
#print axioms Gse.C07_storages_step
#print axioms Gse.C07_resourced_static
#print axioms Gse.C07_merge_static
#print axioms Gse.C07_unknown_ids_rejected
#print axioms Gse.C07_merge_strays_rejected
