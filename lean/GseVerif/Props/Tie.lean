/-
Translator tie: the hand-written model agrees with every shape `tools/gen_lean.py` recognised in the
source on this run (`Generated/Facts.lean`).  A fact that was not recognised is `none` and its
theorem is vacuous (that behaviour is then tied by the correspondence check only); a recognised
shape whose content differs from the model breaks the corresponding theorem.
-/
import GseVerif.Generated.Facts
import GseVerif.Model.Memory

namespace Gse
open Gen

theorem Tie_label_len (f) (h : labelLenFact = some f) :
    f = ((Label.six 0 0 0 0 0 0).len, (Label.three 0 0 0).len, Label.broadcast.len, Label.reuse.len) := by
  unfold labelLenFact at h; cases h <;> rfl

theorem Tie_labelType_len (f) (h : labelTypeLenFact = some f) :
    f = (LabelType.six.len, LabelType.three.len, LabelType.broadcast.len, LabelType.reuse.len) := by
  unfold labelTypeLenFact at h; cases h <;> rfl

theorem Tie_header_kind (f) (h : headerKindFact = some f) :
    f = (startEndBits .complete, startEndBits .first, startEndBits .inter, startEndBits .end_) := by
  unfold headerKindFact at h; cases h <;> rfl

theorem Tie_header_labelType (f) (h : headerLabelTypeFact = some f) :
    f = (labelTypeBits .six, labelTypeBits .three, labelTypeBits .broadcast, labelTypeBits .reuse) := by
  unfold headerLabelTypeFact at h; cases h <;> rfl

theorem Tie_ext_len (f) (h : extLenFact = some f) (id : Nat) (d : Bytes) :
    (⟨id, .data2, d⟩ : Ext).len = f.1 + PROTOCOL_LEN ∧ (⟨id, .data4, d⟩ : Ext).len = f.2.1 + PROTOCOL_LEN ∧
    (⟨id, .data6, d⟩ : Ext).len = f.2.2.1 + PROTOCOL_LEN ∧ (⟨id, .data8, d⟩ : Ext).len = f.2.2.2.1 + PROTOCOL_LEN ∧
    (⟨id, .noData, d⟩ : Ext).len = f.2.2.2.2 + PROTOCOL_LEN := by
  unfold extLenFact at h; cases h <;> simp [Ext.len]

theorem Tie_enc_new (f) (h : encNewFact = some f) : f = Enc.new := by
  unfold encNewFact at h; cases h <;> rfl

theorem Tie_enc_reset (f) (h : encResetFact = some f) (e : Enc) : f e = e.reset := by
  unfold encResetFact at h; cases h <;> rfl

theorem Tie_enc_disable (f) (h : encDisableFact = some f) (e : Enc) : f e = e.disable := by
  unfold encDisableFact at h; cases h <;> rfl

theorem Tie_enc_enable (f) (h : encEnableFact = some f) (e : Enc) : f e = e.enable := by
  unfold encEnableFact at h; cases h <;> rfl

theorem Tie_enc_enableMax (f) (h : encEnableMaxFact = some f) (e : Enc) (n : Nat) : f e n = e.enableMax n := by
  unfold encEnableMaxFact at h; cases h <;> rfl

theorem Tie_mem_capacity (f) (h : memCapMarginFact = some f) (n sz : Nat) : (Mem.new n sz).cap = n + f := by
  unfold memCapMarginFact at h; cases h <;> rfl

#print axioms Tie_label_len
#print axioms Tie_enc_disable
#print axioms Tie_mem_capacity

end Gse
