/-
Translator tie, the encapsulator's constructor and re-use configuration methods: the hand-written model agrees with every shape `tools/gen_lean.py`
recognised in the source on this run (`Generated/Facts.lean`).  A fact that was not recognised is `none` and
its theorem is vacuous (that behaviour is then tied by the correspondence check only); a recognised shape
whose content differs from the model breaks the corresponding theorem.  The tie is split by subject so that a
property is only tied to the facts its theorems rest on.
-/
import GseVerif.Generated.Facts
import GseVerif.Model.Memory

namespace Gse
open Gen

theorem Tie_enc_new (f) (h : encNewFact = some f) : f = Enc.new := by
  unfold encNewFact at h; cases h <;> rfl

theorem Tie_enc_reset (f) (h : encResetFact = some f) (e : Enc) : f e = e.reset := by
  unfold encResetFact at h; cases h <;> rfl

theorem Tie_enc_disable (f) (h : encDisableFact = some f) (e : Enc) : f e = e.disable := by
  unfold encDisableFact at h; cases h <;> rfl

theorem Tie_enc_enable (f) (h : encEnableFact = some f) (e : Enc) : f e = e.enable := by
  unfold encEnableFact at h; cases h <;> rfl

theorem Tie_enc_enableMax (f) (h : encEnableMaxFact = some f) (e : Enc) (n : Nat) : f e n = e.enableMax n := by
  unfold encEnableMaxFact at h; cases h <;> rfl

end Gse

#print axioms Gse.Tie_enc_new
#print axioms Gse.Tie_enc_reset
#print axioms Gse.Tie_enc_disable
#print axioms Gse.Tie_enc_enable
#print axioms Gse.Tie_enc_enableMax
