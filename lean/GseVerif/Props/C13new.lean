/-
Property C13, constructor part: "constructing an extension succeeds exactly when the id is below
0x0600 and, for optional ids, the data length matches the H-LEN table, and never panics"
— all 65 536 ids, any data.  About `extNew` (Model/Ext.lean = `Extension::new`).
The generated constants and table are referred to by name only.
-/
import GseVerif.Lemmas.Ext

namespace Gse
open Gen

/-! ### the H-LEN table (`optionnal_extension_data_size_from_hlen`), all `h : u8` -/

/-- `h` in `1..5`: `Ok(2 * (h - 1))` -/
theorem C13_hlen_mid (h : Nat) (h1 : 1 ≤ h) (h5 : h ≤ 5) : hlenDataSize h = some (2 * (h - 1)) :=
  hlenDataSize_mid ⟨h, by omega⟩ h1 h5

example : hlenDataSize 3 = some 4 := C13_hlen_mid 3 (by decide) (by decide)

/-- `h = 0`: error (mandatory header) -/
theorem C13_hlen_zero : hlenDataSize 0 = none := hlenDataSize_zero

/-- `6 ≤ h < 256`: error (unknown H-LEN) -/
theorem C13_hlen_high (h : Nat) (h6 : 6 ≤ h) (hlt : h < 256) : hlenDataSize h = none :=
  hlenDataSize_high ⟨h, hlt⟩ h6

example : hlenDataSize 255 = none := C13_hlen_high 255 (by decide) (by decide)

/-- the table is defined exactly for `1 ≤ h ≤ 5` -/
theorem C13_hlen_some_iff (h : Nat) (hlt : h < 256) :
    (∃ n, hlenDataSize h = some n) ↔ (1 ≤ h ∧ h ≤ 5) := by
  rw [← hlenDataSize_isSome_iff h hlt, Option.isSome_iff_exists]

/-! ### `Extension::new` -/

/-- `Extension::new` never panics (neither `unreachable!()` is reachable), any `u16` id, any data -/
theorem C13_new_total (id : Nat) (h : id < 65536) (data : Bytes) : extNew id data ≠ .panic :=
  extNew_ne_panic id h data

-- the boundary ids and a data length that is in no variant
example : extNew 1535 [1, 2, 3] ≠ .panic := C13_new_total 1535 (by decide) _
example : extNew 65535 [] ≠ .panic := C13_new_total 65535 (by decide) _

/-- `Extension::new` succeeds exactly when the id is below `SECOND_RANGE_PTYPE` and, for ids of the
optional range, the data length is the one the H-LEN table gives for `id >> 8`. -/
theorem C13_new_ok_iff (id : Nat) (h : id < 65536) (data : Bytes) :
    (∃ e, extNew id data = .ok e) ↔
      (id < SECOND_RANGE_PTYPE ∧
        (MAX_MANDATORY_VAL_PTYPE ≤ id → hlenDataSize (id / 256) = some data.length)) := by
  constructor
  · rintro ⟨e, he⟩
    have hw := extNew_ok_wf he
    obtain ⟨rfl, rfl⟩ := extNew_ok_fields he
    exact ⟨hw.1, fun h2 => (hw.2.2 h2).1⟩
  · rintro ⟨h1, h2⟩
    by_cases hm : id < MAX_MANDATORY_VAL_PTYPE
    · exact ⟨⟨id, .mandatory, data⟩, by unfold extNew; rw [if_neg (Nat.not_le.mpr h1), if_pos hm]⟩
    · have h3 := h2 (Nat.le_of_not_lt hm)
      have hp := extNew_ne_panic id h data
      unfold extNew at hp ⊢
      rw [if_neg (Nat.not_le.mpr h1), if_neg hm, h3] at hp ⊢
      simp only [ne_eq, not_true_eq_false, if_false] at hp ⊢
      split <;> first | exact ⟨_, rfl⟩ | skip
      rename_i h0 h2 h4 h6 h8
      split at hp <;> first | exact absurd rfl hp | skip
      all_goals rename_i hh; first | exact absurd hh h0 | exact absurd hh h2 | exact absurd hh h4
                                   | exact absurd hh h6 | exact absurd hh h8

-- both directions on concrete instances: optional id 0x0203 needs exactly 2 bytes
example : ∃ e, extNew 0x0203 [7, 8] = .ok e := ⟨_, rfl⟩
example : ¬ ∃ e, extNew 0x0203 [7, 8, 9] = .ok e := by
  rw [C13_new_ok_iff _ (by decide)]; decide
example : ¬ ∃ e, extNew 0x0600 [] = .ok e := by
  rw [C13_new_ok_iff _ (by decide)]; decide
example : ∃ e, extNew 0x00ff [1, 2, 3] = .ok e := by
  rw [C13_new_ok_iff _ (by decide)]; decide

/-- the exact outcome in the failing cases: the id test comes first, then the size test -/
theorem C13_new_err (id : Nat) (h : id < 65536) (data : Bytes) :
    (extNew id data = .err .incorrectId ↔ SECOND_RANGE_PTYPE ≤ id) ∧
    (extNew id data = .err .sizeMismatch ↔
      (id < SECOND_RANGE_PTYPE ∧ MAX_MANDATORY_VAL_PTYPE ≤ id ∧
        hlenDataSize (id / 256) ≠ some data.length)) := by
  have hp := extNew_ne_panic id h data
  have hok := C13_new_ok_iff id h data
  by_cases h1 : SECOND_RANGE_PTYPE ≤ id
  · have : extNew id data = .err .incorrectId := by unfold extNew; rw [if_pos h1]
    rw [this]
    exact ⟨⟨fun _ => h1, fun _ => rfl⟩,
      ⟨nofun, fun h2 => absurd h1 (Nat.not_le.mpr h2.1)⟩⟩
  · by_cases hm : id < MAX_MANDATORY_VAL_PTYPE
    · have : extNew id data = .ok ⟨id, .mandatory, data⟩ := by
        unfold extNew; rw [if_neg h1, if_pos hm]
      rw [this]
      exact ⟨⟨nofun, fun h2 => absurd h2 h1⟩,
        ⟨nofun, fun h2 => absurd hm (Nat.not_lt.mpr h2.2.1)⟩⟩
    · cases hr : extNew id data with
      | panic => exact absurd hr hp
      | ok e =>
        have := hok.mp ⟨e, hr⟩
        exact ⟨⟨nofun, fun h2 => absurd h2 h1⟩,
          ⟨nofun, fun h2 => absurd (this.2 h2.2.1) h2.2.2⟩⟩
      | err x =>
        have hno : ¬ ∃ e, extNew id data = .ok e := by
          rintro ⟨e, he⟩; rw [hr] at he; cases he
        rw [hok] at hno
        have hx : x = .sizeMismatch := by
          unfold extNew at hr
          rw [if_neg h1, if_neg hm] at hr
          split at hr
          · cases hr
          · split at hr
            · cases hr; rfl
            · split at hr <;> cases hr
        subst hx
        exact ⟨⟨nofun, fun h2 => absurd h2 h1⟩,
          ⟨fun _ => ⟨Nat.lt_of_not_ge h1, Nat.le_of_not_lt hm,
            fun h3 => hno ⟨Nat.lt_of_not_ge h1, fun _ => h3⟩⟩, fun _ => rfl⟩⟩

example : extNew 0x0600 [] = .err .incorrectId := ((C13_new_err _ (by decide) _).1).mpr (by decide)
example : extNew 0x0501 [1, 2] = .err .sizeMismatch :=
  ((C13_new_err _ (by decide) _).2).mpr (by decide)

/-- Shape of a successfully built extension: id and data are the arguments, the variant is
`MandatoryData` exactly for ids of the mandatory range, the extension is well formed, and
`Extension::len` is the id plus the data actually stored. -/
theorem C13_new_ok_shape (id : Nat) (data : Bytes) (e : Ext) (he : extNew id data = .ok e) :
    e.id = id ∧ e.data = data ∧ (e.kind = .mandatory ↔ id < MAX_MANDATORY_VAL_PTYPE) ∧ e.WF ∧
      e.len = PROTOCOL_LEN + data.length := by
  have hw := extNew_ok_wf he
  obtain ⟨rfl, rfl⟩ := extNew_ok_fields he
  exact ⟨rfl, rfl, hw.2.1, hw, hw.len_eq⟩

example : extNew 0x0345 [1, 2, 3, 4] = .ok ⟨0x0345, .data4, [1, 2, 3, 4]⟩ := rfl
example : (⟨0x0345, .data4, [1, 2, 3, 4]⟩ : Ext).len = 6 :=
  (C13_new_ok_shape 0x0345 [1, 2, 3, 4] _ rfl).2.2.2.2

/-- `Ext.len` agrees with the stored data for every well-formed extension -/
theorem C13_wf_len (e : Ext) (h : e.WF) : e.len = PROTOCOL_LEN + e.data.length := h.len_eq

example : (⟨0x0100, .noData, []⟩ : Ext).WF := by decide
-- not vacuous the other way: a hand-built ill-formed extension has a `len` that lies
example : ¬ (⟨0x0100, .data8, []⟩ : Ext).WF ∧ (⟨0x0100, .data8, []⟩ : Ext).len = 10 := by decide

/-- round trip used by the decoder proofs: a well-formed extension is what `Extension::new`
returns for its own id and data -/
theorem C13_wf_new (e : Ext) (h : e.WF) : extNew e.id e.data = .ok e := h.extNew_eq

example : extNew 0x0081 [9] = .ok ⟨0x0081, .mandatory, [9]⟩ :=
  C13_wf_new ⟨0x0081, .mandatory, [9]⟩ (by decide)

/-- `Extension::new` builds exactly the well-formed extensions -/
theorem C13_new_ok_iff_wf (id : Nat) (data : Bytes) (e : Ext) :
    extNew id data = .ok e ↔ (e.WF ∧ e.id = id ∧ e.data = data) := extNew_ok_iff_wf id data e

example : extNew 0x0599 (List.replicate 8 0) = .ok ⟨0x0599, .data8, List.replicate 8 0⟩ :=
  (C13_new_ok_iff_wf _ _ _).mpr (by decide)

#print axioms C13_hlen_mid
#print axioms C13_hlen_zero
#print axioms C13_hlen_high
#print axioms C13_hlen_some_iff
#print axioms C13_new_total
#print axioms C13_new_ok_iff
#print axioms C13_new_err
#print axioms C13_new_ok_shape
#print axioms C13_wf_len
#print axioms C13_wf_new
#print axioms C13_new_ok_iff_wf

end Gse
