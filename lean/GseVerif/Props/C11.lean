/-
Property C11 — "Fragmentation always progresses and partitions the PDU exactly".

The context returned with a first fragment counts exactly the payload bytes that fragment carried
(`C11_first`), and each successful continuation call either emits the final CRC-bearing packet or
writes at least one payload byte and returns a context advanced by exactly the bytes written, with
fragment id and CRC unchanged (`C11_step`, `C11_no_empty`); the payloads of the produced packets
are consecutive, non-overlapping slices whose concatenation is the PDU (`C11_partition`,
`C11_partition_first`).  Consequently, after the first fragment, any schedule of buffers of at
least 7 bytes finishes the PDU within (remaining bytes + 1) calls (`C11_bound`), and a buffer that
cannot carry anything useful is rejected instead of being answered with an empty fragment
(`C11_no_empty`).

Quantifiers: every PDU of at most 65 535 bytes (`TOTAL_LEN_MAX`; `encap` accepts no longer one,
and the `u16` position of the context cannot count further), every context position, every buffer
size per call (0, 1, …, also beyond 4097), every finite schedule `sizes`.

A schedule is run by `fragRun`: it offers zero-filled buffers of the given sizes to `encapFrag`
one after the other, threads the returned context, skips the buffers that are rejected, and reads
the payload of every produced packet back from the output buffer at the fixed offsets of the
layout (`fragPayload`: behind header and fragment id, without the 4 CRC bytes of an end packet).
The proofs use the closed forms `encap_cases` / `encapFrag_cases` of Lemmas/EncapLayer.lean.
-/
import GseVerif.Lemmas.EncapLayer

namespace Gse
open Gen

/-- The payload bytes of a continuation packet of `n` bytes at the start of `b`: what lies behind
the 2-byte header and the fragment id; the last `trailer` bytes of the packet (the CRC of an end
packet) are not payload. -/
def fragPayload (b : Bytes) (n trailer : Nat) : Bytes :=
  (b.drop (FIXED_HEADER_LEN + FRAG_ID_LEN)).take (n - (FIXED_HEADER_LEN + FRAG_ID_LEN) - trailer)

/-- Payloads produced by offering zero-filled buffers of the sizes `sizes`, in order, to
`encap_frag` (buffers it rejects are skipped, the context is then kept); the run stops at the end
packet.  Result: the payloads read from the output buffers, and the context still open (`none`
when the PDU is completed). -/
def fragRun (pdu : Bytes) (ctx : FragCtx) : List Nat → List Bytes × Option FragCtx
  | [] => ([], some ctx)
  | sz :: rest =>
    match encapFrag pdu ctx (List.replicate sz 0) with
    | (.ok (.completed n), b) => ([fragPayload b n CRC_LEN], none)
    | (.ok (.fragmented n ctx'), b) =>
      (fragPayload b n 0 :: (fragRun pdu ctx' rest).1, (fragRun pdu ctx' rest).2)
    | _ => fragRun pdu ctx rest

private theorem fragPayload_eq (h : Nat) (f : UInt8) (body tail : Bytes) (n tr : Nat)
    (hn : n - (FIXED_HEADER_LEN + FRAG_ID_LEN) - tr = body.length) :
    fragPayload (be16 h ++ [f] ++ body ++ tail) n tr = body := by
  unfold fragPayload
  rw [hn, List.append_assoc (be16 h ++ [f]), List.drop_left' (by simp), List.take_left' rfl]

/-- one step of a run, on the guards of `encap_frag` -/
private theorem fragRun_cons_cases (pdu : Bytes) (ctx : FragCtx) (sz : Nat) (rest : List Nat)
    (hp : pdu.length ≤ TOTAL_LEN_MAX) :
    let r := pdu.length - ctx.pos
    let fitsEnd := FRAG_ID_LEN + r + CRC_LEN + FIXED_HEADER_LEN ≤ sz ∧
                   FRAG_ID_LEN + r + CRC_LEN ≤ GSE_LEN_MAX
    (ctx.pos ≤ pdu.length ∧ fitsEnd ∧
      fragRun pdu ctx (sz :: rest) = ([pdu.drop ctx.pos], none)) ∨
    (ctx.pos ≤ pdu.length ∧ ¬fitsEnd ∧ FIXED_HEADER_LEN + FRAG_ID_LEN < sz ∧
      ∃ k, k = interPayloadLen r sz ∧ 1 ≤ k ∧ k ≤ r ∧
        fragRun pdu ctx (sz :: rest)
          = ((pdu.drop ctx.pos).take k :: (fragRun pdu ⟨ctx.fragId, ctx.crc, ctx.pos + k⟩ rest).1,
             (fragRun pdu ⟨ctx.fragId, ctx.crc, ctx.pos + k⟩ rest).2)) ∨
    ((ctx.pos > pdu.length ∨ (¬fitsEnd ∧ (sz ≤ FIXED_HEADER_LEN + FRAG_ID_LEN ∨ r = 0))) ∧
      fragRun pdu ctx (sz :: rest) = fragRun pdu ctx rest) := by
  intro r fitsEnd
  have hc := encapFrag_cases pdu ctx (List.replicate sz 0)
  simp only [List.length_replicate] at hc
  rcases hc with ⟨hpos, ho⟩ | ⟨hpos, hf, ho⟩ | ⟨hpos, hf, hb, hn1, hnr, ho, hmod⟩ | ⟨hpos, hf, hb, ho⟩
  · right; right
    refine ⟨Or.inl hpos, ?_⟩
    simp only [fragRun, ho]
  · left
    refine ⟨hpos, hf, ?_⟩
    simp only [fragRun, ho]
    rw [List.append_assoc (_ ++ pdu.drop ctx.pos), fragPayload_eq]
    rw [List.length_drop]; gse_omega
  · right; left
    refine ⟨hpos, hf, hb, _, rfl, hn1, hnr, ?_⟩
    simp only [fragRun, ho, hmod hp]
    rw [fragPayload_eq]
    rw [List.length_take, List.length_drop]; gse_omega
  · right; right
    refine ⟨Or.inr ⟨hf, hb⟩, ?_⟩
    simp only [fragRun, ho]

/-- invariant of a run: the payloads produced so far continue the PDU at the context position
without gap or overlap; the context that is still open has advanced by exactly their total length
and keeps fragment id and CRC -/
private theorem fragRun_inv (pdu : Bytes) (hp : pdu.length ≤ TOTAL_LEN_MAX) (sizes : List Nat) :
    ∀ ctx : FragCtx,
      (∀ ps, fragRun pdu ctx sizes = (ps, none) →
        ctx.pos ≤ pdu.length ∧ pdu.take ctx.pos ++ ps.flatten = pdu) ∧
      (∀ ps c, fragRun pdu ctx sizes = (ps, some c) →
        pdu.take ctx.pos ++ ps.flatten = pdu.take c.pos ∧ c.fragId = ctx.fragId ∧ c.crc = ctx.crc ∧
          c.pos = ctx.pos + ps.flatten.length ∧ (ctx.pos ≤ pdu.length → c.pos ≤ pdu.length)) := by
  induction sizes with
  | nil =>
    intro ctx
    refine ⟨fun ps h => ?_, fun ps c h => ?_⟩
    · cases h
    · cases h
      simp
  | cons sz rest ih =>
    intro ctx
    have hc := fragRun_cons_cases pdu ctx sz rest hp
    dsimp only at hc
    rcases hc with ⟨hpos, _, ho⟩ | ⟨hpos, _, _, k, _, hk1, hkr, ho⟩ | ⟨_, ho⟩
    · rw [ho]
      refine ⟨fun ps h => ?_, fun ps c h => ?_⟩
      · cases h
        refine ⟨hpos, ?_⟩
        simp only [List.flatten_cons, List.flatten_nil, List.append_nil, List.take_append_drop]
      · cases h
    · rw [ho]
      have ih' := ih ⟨ctx.fragId, ctx.crc, ctx.pos + k⟩
      generalize fragRun pdu ⟨ctx.fragId, ctx.crc, ctx.pos + k⟩ rest = R at ih' ⊢
      obtain ⟨ps', c'⟩ := R
      obtain ⟨ih1, ih2⟩ := ih'
      dsimp only at ih1 ih2 ⊢
      have htk : pdu.take ctx.pos ++ (pdu.drop ctx.pos).take k = pdu.take (ctx.pos + k) :=
        List.take_add.symm
      have hlen : ((pdu.drop ctx.pos).take k).length = k := by
        rw [List.length_take, List.length_drop]; omega
      refine ⟨fun ps h => ?_, fun ps c h => ?_⟩
      · simp only [Prod.mk.injEq] at h
        obtain ⟨rfl, rfl⟩ := h
        obtain ⟨_, ih1'⟩ := ih1 _ rfl
        refine ⟨hpos, ?_⟩
        rw [List.flatten_cons, ← List.append_assoc, htk]
        exact ih1'
      · simp only [Prod.mk.injEq] at h
        obtain ⟨rfl, rfl⟩ := h
        obtain ⟨i1, i2, i3, i4, i5⟩ := ih2 _ c rfl
        refine ⟨?_, i2, i3, ?_, fun _ => i5 (by omega)⟩
        · rw [List.flatten_cons, ← List.append_assoc, htk]
          exact i1
        · rw [i4, List.flatten_cons, List.length_append, hlen]
          omega
    · rw [ho]
      exact ih ctx

/-- a schedule of buffers, each with room for `c ≥ 4` payload bytes behind the 3 header bytes,
completes as soon as it is `need r` buffers long, for any `need` that is at least 1 and decreases
by one whenever `min c r` or more of the `r > 0` remaining bytes are consumed -/
private theorem fragRun_completes (pdu : Bytes) (hp : pdu.length ≤ TOTAL_LEN_MAX) (c : Nat)
    (hc4 : CRC_LEN ≤ c) (hc : c ≤ GSE_LEN_MAX - FRAG_ID_LEN) (need : Nat → Nat) (h1 : ∀ r, 1 ≤ need r)
    (hstep : ∀ r k, 0 < r → min c r ≤ k → k ≤ r → need (r - k) + 1 ≤ need r) (sizes : List Nat) :
    ∀ ctx : FragCtx, ctx.pos ≤ pdu.length →
      (∀ sz ∈ sizes, FIXED_HEADER_LEN + FRAG_ID_LEN + c ≤ sz) →
      need (pdu.length - ctx.pos) ≤ sizes.length → (fragRun pdu ctx sizes).2 = none := by
  induction sizes with
  | nil =>
    intro ctx _ _ hlen
    have := h1 (pdu.length - ctx.pos)
    simp only [List.length_nil] at hlen
    omega
  | cons sz rest ih =>
    intro ctx hpos hall hlen
    have hsz := hall sz List.mem_cons_self
    have hc := fragRun_cons_cases pdu ctx sz rest hp
    dsimp only at hc
    rcases hc with ⟨_, _, ho⟩ | ⟨_, _, _, k, hk, hk1, hkr, ho⟩ | ⟨hbad, _⟩
    · rw [ho]
    · rw [ho]
      show (fragRun pdu ⟨ctx.fragId, ctx.crc, ctx.pos + k⟩ rest).2 = none
      have hkc : min c (pdu.length - ctx.pos) ≤ k := by
        rw [hk, interPayloadLen_eq]; gse_omega
      have hs := hstep (pdu.length - ctx.pos) k (by omega) hkc hkr
      refine ih _ (by show ctx.pos + k ≤ pdu.length; omega)
        (fun s hs => hall s (List.mem_cons_of_mem _ hs)) ?_
      show need (pdu.length - (ctx.pos + k)) ≤ rest.length
      rw [show pdu.length - (ctx.pos + k) = pdu.length - ctx.pos - k by omega]
      simp only [List.length_cons] at hlen
      omega
    · exfalso
      rcases hbad with hbad | ⟨hnf, hbad⟩
      · omega
      · apply hnf
        gse_omega

/-! Fixtures for the `example`s. -/
namespace C11
def crc0 : CrcFn := fun _ _ _ _ => 0xDEADBEEF
def lab6 : Label := .six 1 2 3 4 5 6
/-- 5000-byte PDU whose bytes differ (so that a misplaced slice would be seen) -/
def bigPdu : Bytes := (List.range 5000).map (fun i => UInt8.ofNat i)
def smallPdu : Bytes := [10, 11, 12, 13, 14, 15, 16, 17, 18, 19]
def pdu100 : Bytes := (List.range 100).map (fun i => UInt8.ofNat i)
def buf100 : Bytes := List.replicate 100 0
/-- context after a first fragment of 87 payload bytes -/
def ctx87 : FragCtx := ⟨1, 0xDEADBEEF, 87⟩
end C11
open C11

/-! ### 1. The first fragment -/

/-- The context returned with a first fragment counts exactly the payload bytes of that fragment:
they are the first `ctx.pos` bytes of the PDU, they sit behind the 7 + label bytes of header, the
reported length is header + payload, something always remains (`ctx.pos < |pdu|`), and the
context carries the caller's fragment id and the CRC of the whole PDU. -/
theorem C11_first (crc : CrcFn) (es : Enc) (pdu : Bytes) (fid pt : Nat) (label : Label) (buf : Bytes)
    (n : Nat) (ctx : FragCtx)
    (h : (encap crc es pdu fid pt label buf).res = .ok (.fragmented n ctx)) :
    ctx.fragId = fid ∧
    ctx.crc = crc pdu pt (pdu.length + PROTOCOL_LEN + (checkLabelReUse es label).1.len)
                (checkLabelReUse es label).1.bytes ∧
    ctx.pos < pdu.length ∧ pdu.length ≤ TOTAL_LEN_MAX ∧
    n = FIRST_FRAG_LEN + (checkLabelReUse es label).1.len + ctx.pos ∧
    slice (encap crc es pdu fid pt label buf).buf
        (FIRST_FRAG_LEN + (checkLabelReUse es label).1.len) ctx.pos = some (pdu.take ctx.pos) := by
  have hc := encap_cases crc es pdu fid pt label buf
  dsimp only at hc
  generalize (checkLabelReUse es label).1 = lbl at hc ⊢
  rcases hc with ⟨_, ho⟩ | ⟨_, _, ho⟩ | ⟨_, _, _, ho⟩ | ⟨_, _, _, _, ho⟩ | ⟨_, _, _, _, _, ho⟩ |
    ⟨_, _, _, _, ht, hlt, ho⟩ <;> rw [ho] at h ⊢ <;> cases h
  refine ⟨rfl, rfl, hlt, by gse_omega, rfl, ?_⟩
  dsimp only
  generalize firstPayloadLen lbl.len buf.length = m at hlt ⊢
  have hA : (be16 (genHeader .first lbl.type
        (FRAG_ID_LEN + TOTAL_LENGTH_LEN + PROTOCOL_LEN + lbl.len + m))
      ++ [u8 fid] ++ be16 (pdu.length + PROTOCOL_LEN + lbl.len) ++ be16 pt ++ lbl.bytes).length
      = FIRST_FRAG_LEN + lbl.len := by
    simp only [List.length_append, be16_length, Label.bytes_length, List.length_cons,
      List.length_nil, FIRST_FRAG_LEN]
  rw [← hA]
  exact slice_mid' _ _ _ (by rw [List.length_take]; omega)

/-- 5000-byte PDU, 100-byte buffer, 6-byte label: 87 payload bytes -/
example : (encap crc0 Enc.new bigPdu 1 0x0800 lab6 buf100).res = .ok (.fragmented 100 ctx87) ∧
    slice (encap crc0 Enc.new bigPdu 1 0x0800 lab6 buf100).buf 13 87 = some (bigPdu.take 87) := by
  decide +kernel

/-! ### 2. One continuation call -/

/-- Each successful `encap_frag` either emits the end packet — payload: everything that remained,
trailer: the CRC of the context — or an intermediate fragment carrying `k ≥ 1` payload bytes
`pdu[pos .. pos + k]` and returns the context advanced by exactly `k`, with fragment id and CRC
unchanged and still inside the PDU. -/
theorem C11_step (pdu : Bytes) (ctx : FragCtx) (buf : Bytes) (st : EncStatus)
    (hp : pdu.length ≤ TOTAL_LEN_MAX) (h : (encapFrag pdu ctx buf).1 = .ok st) :
    ctx.pos ≤ pdu.length ∧
    ((st = .completed (FIXED_HEADER_LEN + FRAG_ID_LEN + (pdu.length - ctx.pos) + CRC_LEN) ∧
        fragPayload (encapFrag pdu ctx buf).2
          (FIXED_HEADER_LEN + FRAG_ID_LEN + (pdu.length - ctx.pos) + CRC_LEN) CRC_LEN
          = pdu.drop ctx.pos ∧
        slice (encapFrag pdu ctx buf).2 (FIXED_HEADER_LEN + FRAG_ID_LEN + (pdu.length - ctx.pos))
          CRC_LEN = some (be32 ctx.crc)) ∨
     (∃ k, 1 ≤ k ∧ ctx.pos + k ≤ pdu.length ∧
        st = .fragmented (FIXED_HEADER_LEN + FRAG_ID_LEN + k) ⟨ctx.fragId, ctx.crc, ctx.pos + k⟩ ∧
        fragPayload (encapFrag pdu ctx buf).2 (FIXED_HEADER_LEN + FRAG_ID_LEN + k) 0
          = (pdu.drop ctx.pos).take k)) := by
  have hc := encapFrag_cases pdu ctx buf
  dsimp only at hc
  rcases hc with ⟨_, ho⟩ | ⟨hpos, hf, ho⟩ | ⟨hpos, hf, hb, hn1, hnr, ho, hmod⟩ | ⟨_, _, _, ho⟩
  · rw [ho] at h; cases h
  · rw [ho] at h ⊢
    cases h
    refine ⟨hpos, Or.inl ⟨rfl, ?_, ?_⟩⟩
    · dsimp only
      rw [List.append_assoc (_ ++ pdu.drop ctx.pos), fragPayload_eq]
      rw [List.length_drop]; gse_omega
    · dsimp only
      have hA : (be16 (genHeader .end_ .reuse (FRAG_ID_LEN + (pdu.length - ctx.pos) + CRC_LEN))
          ++ [u8 ctx.fragId] ++ pdu.drop ctx.pos).length
          = FIXED_HEADER_LEN + FRAG_ID_LEN + (pdu.length - ctx.pos) := by
        simp only [List.length_append, be16_length, List.length_drop, List.length_cons,
          List.length_nil, FIXED_HEADER_LEN, FRAG_ID_LEN]
      rw [← hA]
      exact slice_mid' _ _ _ (be32_length _)
  · rw [ho] at h ⊢
    cases h
    refine ⟨hpos, Or.inr ⟨_, hn1, by omega, ?_, ?_⟩⟩
    · rw [hmod hp, Nat.add_assoc]
    · dsimp only
      rw [fragPayload_eq]
      rw [List.length_take, List.length_drop]; gse_omega
  · rw [ho] at h; cases h

/-- end packet: the last 2 bytes and the CRC -/
example : (encapFrag smallPdu ⟨1, 0xDEADBEEF, 8⟩ (List.replicate 12 0)).1 = .ok (.completed 9) ∧
    fragPayload (encapFrag smallPdu ⟨1, 0xDEADBEEF, 8⟩ (List.replicate 12 0)).2 9 4 = [18, 19] ∧
    slice (encapFrag smallPdu ⟨1, 0xDEADBEEF, 8⟩ (List.replicate 12 0)).2 5 4
      = some [0xDE, 0xAD, 0xBE, 0xEF] := by decide +kernel
/-- intermediate fragment: 3 bytes in a 6-byte buffer, context advanced from 5 to 8 -/
example : (encapFrag smallPdu ⟨1, 0xDEADBEEF, 5⟩ (List.replicate 6 0)).1
      = .ok (.fragmented 6 ⟨1, 0xDEADBEEF, 8⟩) ∧
    fragPayload (encapFrag smallPdu ⟨1, 0xDEADBEEF, 5⟩ (List.replicate 6 0)).2 6 0 = [15, 16, 17] := by
  decide +kernel

/-! ### 3. No empty fragment -/

/-- No successful call returns an empty intermediate fragment (for any PDU length and context);
and when nothing is left but the CRC, a buffer that cannot hold the 7-byte end packet is rejected
with `ErrorSizeBuffer` instead of being answered with an empty fragment (repaired defect D3:
buffers of 4..6 bytes). -/
theorem C11_no_empty (pdu : Bytes) (ctx : FragCtx) (buf : Bytes) :
    (∀ n c, (encapFrag pdu ctx buf).1 = .ok (.fragmented n c) →
      FIXED_HEADER_LEN + FRAG_ID_LEN < n ∧ fragPayload (encapFrag pdu ctx buf).2 n 0 ≠ []) ∧
    (ctx.pos = pdu.length → buf.length < FIXED_HEADER_LEN + FRAG_ID_LEN + CRC_LEN →
      encapFrag pdu ctx buf = (.err .sizeBuffer, buf)) := by
  have hc := encapFrag_cases pdu ctx buf
  dsimp only at hc
  refine ⟨fun n c h => ?_, fun hpos hb => ?_⟩
  · rcases hc with ⟨_, ho⟩ | ⟨_, _, ho⟩ | ⟨hpos, hf, hb, hn1, hnr, ho, _⟩ | ⟨_, _, _, ho⟩ <;>
      rw [ho] at h ⊢ <;> cases h
    refine ⟨by gse_omega, ?_⟩
    dsimp only
    rw [fragPayload_eq]
    · intro he
      have := congrArg List.length he
      rw [List.length_take, List.length_drop, List.length_nil] at this
      omega
    · rw [List.length_take, List.length_drop]; gse_omega
  · rcases hc with ⟨h1, _⟩ | ⟨_, hf, _⟩ | ⟨_, _, _, hn1, hnr, _⟩ | ⟨_, _, _, ho⟩
    · omega
    · exfalso; gse_omega
    · omega
    · exact ho

/-- nothing left but the CRC: 4, 5 and 6 bytes are refused, 7 bytes give the end packet -/
example : encapFrag smallPdu ⟨1, 0, 10⟩ [0, 0, 0, 0] = (.err .sizeBuffer, [0, 0, 0, 0]) ∧
    encapFrag smallPdu ⟨1, 0, 10⟩ [0, 0, 0, 0, 0] = (.err .sizeBuffer, [0, 0, 0, 0, 0]) ∧
    encapFrag smallPdu ⟨1, 0, 10⟩ [0, 0, 0, 0, 0, 0] = (.err .sizeBuffer, [0, 0, 0, 0, 0, 0]) ∧
    (encapFrag smallPdu ⟨1, 0, 10⟩ [0, 0, 0, 0, 0, 0, 0]).1 = .ok (.completed 7) := by decide +kernel

/-! ### 4. Partition -/

/-- The payloads of a completed run are consecutive, non-overlapping slices that continue the PDU
at the context position: prefix ++ payloads = PDU. -/
theorem C11_partition (pdu : Bytes) (ctx : FragCtx) (sizes : List Nat) (ps : List Bytes)
    (hp : pdu.length ≤ TOTAL_LEN_MAX) (h : fragRun pdu ctx sizes = (ps, none)) :
    pdu.take ctx.pos ++ ps.flatten = pdu :=
  ((fragRun_inv pdu hp sizes ctx).1 ps h).2

/-- A run that has not completed yet has produced exactly the bytes between the old and the new
context position; fragment id and CRC are unchanged. -/
theorem C11_partition_open (pdu : Bytes) (ctx : FragCtx) (sizes : List Nat) (ps : List Bytes)
    (c : FragCtx) (hp : pdu.length ≤ TOTAL_LEN_MAX) (h : fragRun pdu ctx sizes = (ps, some c)) :
    pdu.take ctx.pos ++ ps.flatten = pdu.take c.pos ∧ c.fragId = ctx.fragId ∧ c.crc = ctx.crc ∧
      c.pos = ctx.pos + ps.flatten.length ∧ (ctx.pos ≤ pdu.length → c.pos ≤ pdu.length) :=
  (fragRun_inv pdu hp sizes ctx).2 ps c h

/-- First fragment from `encap`, then any schedule that completes: the payload of the first
fragment followed by the payloads of the continuation packets is the PDU. -/
theorem C11_partition_first (crc : CrcFn) (es : Enc) (pdu : Bytes) (fid pt : Nat) (label : Label)
    (buf : Bytes) (n : Nat) (ctx : FragCtx) (sizes : List Nat) (ps : List Bytes)
    (h : (encap crc es pdu fid pt label buf).res = .ok (.fragmented n ctx))
    (hrun : fragRun pdu ctx sizes = (ps, none)) :
    ∃ first, slice (encap crc es pdu fid pt label buf).buf
        (FIRST_FRAG_LEN + (checkLabelReUse es label).1.len) ctx.pos = some first ∧
      first ++ ps.flatten = pdu := by
  obtain ⟨_, _, _, hp, _, hs⟩ := C11_first crc es pdu fid pt label buf n ctx h
  exact ⟨_, hs, C11_partition pdu ctx sizes ps hp hrun⟩

set_option maxRecDepth 100000 in
/-- the 5000-byte PDU after its 87-byte first fragment, through buffers of 4200, 9, 7 and 70 000
bytes: payloads of 4094, 6, 4 and 809 bytes, completed -/
example : fragRun bigPdu ctx87 [4200, 9, 7, 70000]
    = ([(bigPdu.drop 87).take 4094, (bigPdu.drop 4181).take 6, (bigPdu.drop 4187).take 4,
        bigPdu.drop 4191], none) := by decide +kernel
/-- rejected buffers (3 and 6 bytes are too small here: 3 never holds a payload byte) are skipped;
a run that stops early leaves the context open -/
example : fragRun smallPdu ⟨1, 0, 2⟩ [3, 6, 2, 5] = ([[12, 13, 14], [15, 16]], some ⟨1, 0, 7⟩) := by
  decide +kernel

/-! ### 5. Progress -/

/-- After the first fragment, any schedule of buffers of at least 7 bytes finishes the PDU within
(remaining bytes + 1) calls. -/
theorem C11_bound (pdu : Bytes) (ctx : FragCtx) (sizes : List Nat)
    (hp : pdu.length ≤ TOTAL_LEN_MAX) (hpos : ctx.pos ≤ pdu.length)
    (hall : ∀ sz ∈ sizes, FIXED_HEADER_LEN + FRAG_ID_LEN + CRC_LEN ≤ sz)
    (hlen : pdu.length - ctx.pos + 1 ≤ sizes.length) :
    (fragRun pdu ctx sizes).2 = none :=
  fragRun_completes pdu hp CRC_LEN (Nat.le_refl _) (by decide) (fun r => r + 1) (fun r => by omega)
    (fun r k hr hk hkr => by simp only [CRC_LEN] at hk; omega) sizes ctx hpos hall hlen

/-- `C11_bound` under its other name in DESIGN.md -/
theorem C11_progress (pdu : Bytes) (ctx : FragCtx) (sizes : List Nat)
    (hp : pdu.length ≤ TOTAL_LEN_MAX) (hpos : ctx.pos ≤ pdu.length)
    (hall : ∀ sz ∈ sizes, 7 ≤ sz) (hlen : pdu.length - ctx.pos + 1 ≤ sizes.length) :
    ∃ ps, fragRun pdu ctx sizes = (ps, none) ∧ pdu.take ctx.pos ++ ps.flatten = pdu := by
  have h := C11_bound pdu ctx sizes hp hpos hall hlen
  refine ⟨(fragRun pdu ctx sizes).1, Prod.ext rfl h, ?_⟩
  exact C11_partition pdu ctx sizes _ hp (Prod.ext rfl h)

/-- Buffers of at least 13 bytes carry at least 10 payload bytes each: the run completes within
`remaining / 10 + 2` calls. -/
theorem C11_progress13 (pdu : Bytes) (ctx : FragCtx) (sizes : List Nat)
    (hp : pdu.length ≤ TOTAL_LEN_MAX) (hpos : ctx.pos ≤ pdu.length)
    (hall : ∀ sz ∈ sizes, 13 ≤ sz)
    (hlen : (pdu.length - ctx.pos) / 10 + 2 ≤ sizes.length) :
    (fragRun pdu ctx sizes).2 = none := by
  refine fragRun_completes pdu hp 10 (by decide) (by decide)
    (fun r => if r = 0 then 1 else r / 10 + 2) (fun r => by split <;> omega)
    (fun r k hr hk hkr => ?_) sizes ctx hpos hall ?_
  · split <;> split <;> omega
  · split <;> omega

/-- seven-byte buffers: 4 payload bytes per call; 10 bytes from position 2 need 2 + 1 calls -/
example : fragRun smallPdu ⟨1, 0, 2⟩ [7, 7, 7] = ([[12, 13, 14, 15], [16, 17, 18, 19], []], none) := by
  decide +kernel
/-- the bound `remaining + 1` is reached: one byte remaining, 7-byte buffers: intermediate, end -/
example : fragRun smallPdu ⟨1, 0, 9⟩ [7] = ([[19]], some ⟨1, 0, 10⟩) ∧
    fragRun smallPdu ⟨1, 0, 9⟩ [7, 7] = ([[19], []], none) := by decide +kernel
/-- buffers below 7 bytes can stall for ever once only the CRC remains -/
example : fragRun smallPdu ⟨1, 0, 10⟩ [6, 6, 6, 6, 6] = ([], some ⟨1, 0, 10⟩) := by decide +kernel
/-- the bound `remaining / 10 + 2` is reached: 97 remaining bytes, 13-byte buffers: nine packets of
10 bytes, one of 7 (7 + 7 > 13, so not yet the end packet), then the end packet:
97 / 10 + 2 = 11 calls, and 10 calls do not suffice -/
example : ((fragRun pdu100 ⟨1, 0xDEADBEEF, 3⟩ (List.replicate 11 13)).1.map List.length
      = [10, 10, 10, 10, 10, 10, 10, 10, 10, 7, 0]) ∧
    (fragRun pdu100 ⟨1, 0xDEADBEEF, 3⟩ (List.replicate 11 13)).2 = none ∧
    (fragRun pdu100 ⟨1, 0xDEADBEEF, 3⟩ (List.replicate 10 13)).2 = some ⟨1, 0xDEADBEEF, 100⟩ := by
  decide +kernel

end Gse

#print axioms Gse.C11_first
#print axioms Gse.C11_step
#print axioms Gse.C11_no_empty
#print axioms Gse.C11_partition
#print axioms Gse.C11_partition_open
#print axioms Gse.C11_partition_first
#print axioms Gse.C11_bound
#print axioms Gse.C11_progress
#print axioms Gse.C11_progress13
