/-
Property C18 — "Previews predict exactly what encapsulation will produce".

For the same PDU, metadata and buffer, `encap_preview` returns the packet kind and packet length
that `encap` produces (when no re-use substitution applies) or the same error, and
`encap_frag_preview` returns the packet kind, payload length and packet length that `encap_frag`
produces or the same error.

The previews are functions of the PDU length, the metadata / context and the buffer length only
(`encapPreview pduLen pt label bufLen`, `encapFragPreview pduLen ctx bufLen`): they take no
encapsulator state and no buffer contents, and return no buffer — that part of the property is
in the types.  The theorems hold for every CRC calculator, every encapsulator state and every
protocol type, including the mandatory-extension range `< 0x100`.

When a re-use substitution does apply, `encap` writes the label `(checkLabelReUse es label).1`
(`Label::ReUse`) instead of `label`; `C18_preview_emitted` says that the preview for *that* label
is exact, so the "no substitution" hypothesis of `C18_preview` is precisely what is needed.
-/
import GseVerif.Lemmas.EncapLayer

namespace Gse
open Gen

/-! Fixtures for the `example`s. -/
namespace C18
def crc0 : CrcFn := fun _ _ _ _ => 0xDEADBEEF
def lab6 : Label := .six 1 2 3 4 5 6
def bigPdu : Bytes := List.replicate 5000 7
def bigBuf : Bytes := List.replicate 4200 0
def smallPdu : Bytes := [10, 11, 12, 13, 14, 15, 16, 17, 18, 19]
def buf40 : Bytes := List.replicate 40 0xEE
def buf15 : Bytes := List.replicate 15 0xEE
/-- an encapsulator that has just sent `lab6` with re-use enabled: the next `lab6` is replaced -/
def esSent : Enc := ⟨true, 0, 0, some lab6⟩
end C18
open C18

/-- What a preview has to answer for a given encapsulation result: same kind, whole PDU length,
same packet length; same error. -/
def previewOf (pduLen : Nat) : Res EncErr EncStatus → Res EncErr Preview
  | .ok (.completed n) => .ok ⟨.complete, pduLen, n⟩
  | .ok (.fragmented n _) => .ok ⟨.first, pduLen, n⟩
  | .err e => .err e
  | .panic => .panic

private theorem emitted_cases (es : Enc) (l : Label) :
    (checkLabelReUse es l).1 = l ∨ (checkLabelReUse es l).1 = .reuse := by
  unfold checkLabelReUse
  repeat' split
  all_goals simp

/-! ### 1. `encap_preview` -/

/-- The preview for the label that `encap` actually writes is exact, whatever the re-use state. -/
theorem C18_preview_emitted (crc : CrcFn) (es : Enc) (pdu : Bytes) (fid pt : Nat) (label : Label)
    (buf : Bytes) (hz : label ≠ zeroLabel) :
    encapPreview pdu.length pt (checkLabelReUse es label).1 buf.length
      = previewOf pdu.length (encap crc es pdu fid pt label buf).res := by
  have hc := encap_cases crc es pdu fid pt label buf
  dsimp only at hc
  have hlz : (checkLabelReUse es label).1 ≠ zeroLabel := by
    rcases emitted_cases es label with h | h <;> rw [h]
    · exact hz
    · exact fun h => by cases h
  generalize (checkLabelReUse es label).1 = lbl at hc hlz ⊢
  rcases hc with ⟨h0, _⟩ | ⟨_, hpt, ho⟩ | ⟨_, hpt, hf, ho⟩ | ⟨_, hpt, hf, hb, ho⟩ |
    ⟨_, hpt, hf, hb, ht, ho⟩ | ⟨_, hpt, hf, hb, ht, _, ho⟩
  · exact absurd h0 hz
  · rw [ho, encapPreview_bad_ptype hlz hpt]; rfl
  · rw [ho, encapPreview_complete hlz hpt hf.1 hf.2]; rfl
  · rw [ho, encapPreview_err_sizeBuffer hlz hpt hf hb]; rfl
  · rw [ho, encapPreview_err_pduLength hlz hpt hf hb ht]; rfl
  · rw [ho, encapPreview_first hlz hpt hf hb ht]; rfl

/-- with substitution: `lab6` was just sent, the packet carries `Label::ReUse` and is 6 bytes
shorter than the preview for `lab6` says; the preview for the emitted label is right -/
example : (checkLabelReUse esSent lab6).1 = .reuse ∧
    (encap crc0 esSent smallPdu 1 0x0800 lab6 buf40).res = .ok (.completed 14) ∧
    encapPreview 10 0x0800 .reuse 40 = .ok ⟨.complete, 10, 14⟩ ∧
    encapPreview 10 0x0800 lab6 40 = .ok ⟨.complete, 10, 20⟩ := by decide +kernel

/-- Without substitution the preview equals the image of the result, in one equation. -/
theorem C18_preview_eq (crc : CrcFn) (es : Enc) (pdu : Bytes) (fid pt : Nat) (label : Label)
    (buf : Bytes) (hns : (checkLabelReUse es label).1 = label) :
    encapPreview pdu.length pt label buf.length
      = previewOf pdu.length (encap crc es pdu fid pt label buf).res := by
  by_cases hz : label = zeroLabel
  · subst hz
    rw [encapPreview_zero_label, encap_zero_label]; rfl
  · have := C18_preview_emitted crc es pdu fid pt label buf hz
    rwa [hns] at this

/-- the hypothesis holds e.g. for a fresh encapsulator, for a disabled one, and for a label
different from the last one -/
example : (checkLabelReUse Enc.new lab6).1 = lab6 ∧ (checkLabelReUse Enc.new.disable lab6).1 = lab6 ∧
    (checkLabelReUse esSent (.three 1 2 3)).1 = .three 1 2 3 := by decide

/-- C18 for `encap_preview`: complete packet of length `n` iff `encap` completes with length `n`;
first fragment of length `n` iff `encap` fragments with packet length `n`; error `e` iff `encap`
fails with `e`.  (The preview's `pdu_len` is always the length of the whole PDU.) -/
theorem C18_preview (crc : CrcFn) (es : Enc) (pdu : Bytes) (fid pt : Nat) (label : Label)
    (buf : Bytes) (hns : (checkLabelReUse es label).1 = label) :
    (∀ n, encapPreview pdu.length pt label buf.length = .ok ⟨.complete, pdu.length, n⟩ ↔
          (encap crc es pdu fid pt label buf).res = .ok (.completed n)) ∧
    (∀ n, encapPreview pdu.length pt label buf.length = .ok ⟨.first, pdu.length, n⟩ ↔
          ∃ ctx, (encap crc es pdu fid pt label buf).res = .ok (.fragmented n ctx)) ∧
    (∀ e, encapPreview pdu.length pt label buf.length = .err e ↔
          (encap crc es pdu fid pt label buf).res = .err e) ∧
    (∀ pv, encapPreview pdu.length pt label buf.length = .ok pv →
          pv.pduLen = pdu.length ∧ (pv.kind = .complete ∨ pv.kind = .first)) := by
  rw [C18_preview_eq crc es pdu fid pt label buf hns]
  generalize (encap crc es pdu fid pt label buf).res = r
  refine ⟨fun n => ?_, fun n => ?_, fun e => ?_, fun pv => ?_⟩
  · rcases r with (n' | ⟨n', c⟩) | e' | _ <;> simp [previewOf]
  · rcases r with (n' | ⟨n', c⟩) | e' | _ <;> simp [previewOf]
  · rcases r with (n' | ⟨n', c⟩) | e' | _ <;> simp [previewOf]
  · rcases r with (n' | ⟨n', c⟩) | e' | _ <;> simp [previewOf] <;> rintro rfl <;> simp

/-- 5000-byte PDU, 4200-byte buffer: both say "first fragment of 4097 bytes" -/
example : encapPreview bigPdu.length 0x0800 lab6 bigBuf.length = .ok ⟨.first, bigPdu.length, 4097⟩ ∧
    (encap crc0 Enc.new bigPdu 1 0x0800 lab6 bigBuf).res
      = .ok (.fragmented 4097 ⟨1, 0xDEADBEEF, 4084⟩) := by decide +kernel
/-- complete packet; protocol type below 0x100 -/
example : encapPreview smallPdu.length 0x0081 lab6 buf40.length = .ok ⟨.complete, 10, 20⟩ ∧
    (encap crc0 Enc.new smallPdu 1 0x0081 lab6 buf40).res = .ok (.completed 20) := by
  decide +kernel
/-- errors -/
example : encapPreview smallPdu.length 0x0800 lab6 3 = .err .sizeBuffer ∧
    (encap crc0 Enc.new smallPdu 1 0x0800 lab6 [1, 2, 3]).res = .err .sizeBuffer ∧
    encapPreview smallPdu.length 0x0234 lab6 40 = .err .protocolType ∧
    (encap crc0 Enc.new smallPdu 1 0x0234 lab6 buf40).res = .err .protocolType := by
  decide +kernel

/-! ### 2. `encap_frag_preview` -/

/-- C18 for `encap_frag_preview`.
* end packet with payload `p` and length `n` iff `encap_frag` completes with length `n`, and then
  `p` is all that remained;
* intermediate packet with payload `p` and length `n` iff `encap_frag` returns a fragment of
  length `n = 2 + 1 + p` whose new context has advanced by exactly `p` (as `u16`);
* error `e` iff `encap_frag` fails with `e`;
* no other kind is ever previewed. -/
theorem C18_frag_preview (pdu : Bytes) (ctx : FragCtx) (buf : Bytes) :
    (∀ p n, encapFragPreview pdu.length ctx buf.length = .ok ⟨.end_, p, n⟩ ↔
        (encapFrag pdu ctx buf).1 = .ok (.completed n) ∧ p = pdu.length - ctx.pos) ∧
    (∀ p n, encapFragPreview pdu.length ctx buf.length = .ok ⟨.inter, p, n⟩ ↔
        ∃ c', (encapFrag pdu ctx buf).1 = .ok (.fragmented n c') ∧
          c' = ⟨ctx.fragId, ctx.crc, (ctx.pos + p) % 65536⟩ ∧
          n = FIXED_HEADER_LEN + FRAG_ID_LEN + p) ∧
    (∀ e, encapFragPreview pdu.length ctx buf.length = .err e ↔
        (encapFrag pdu ctx buf).1 = .err e) ∧
    (∀ pv, encapFragPreview pdu.length ctx buf.length = .ok pv →
        pv.kind = .end_ ∨ pv.kind = .inter) := by
  have hc := encapFrag_cases pdu ctx buf
  dsimp only at hc
  rcases hc with ⟨hpos, ho⟩ | ⟨hpos, hf, ho⟩ | ⟨hpos, hf, hb, hn1, hnr, ho, _⟩ | ⟨hpos, hf, hb, ho⟩
  · rw [ho, encapFragPreview_beyond hpos]
    simp
  · rw [ho, encapFragPreview_end hpos hf.1 hf.2]
    refine ⟨fun p n => ?_, fun p n => ?_, fun e => ?_, fun pv h => ?_⟩
    · simp only [Res.ok.injEq, Preview.mk.injEq, EncStatus.completed.injEq, true_and]
      constructor
      · rintro ⟨rfl, rfl⟩; exact ⟨rfl, rfl⟩
      · rintro ⟨rfl, rfl⟩; exact ⟨rfl, rfl⟩
    · simp
    · simp
    · cases h; exact Or.inl rfl
  · have hn0 : interPayloadLen (pdu.length - ctx.pos) buf.length ≠ 0 := by omega
    rw [ho, encapFragPreview_inter hpos hf hb hn0]
    generalize interPayloadLen (pdu.length - ctx.pos) buf.length = m
    refine ⟨fun p n => ?_, fun p n => ?_, fun e => ?_, fun pv h => ?_⟩
    · simp
    · simp only [Res.ok.injEq, Preview.mk.injEq, EncStatus.fragmented.injEq, true_and]
      constructor
      · rintro ⟨rfl, rfl⟩
        exact ⟨_, ⟨rfl, rfl⟩, rfl, by omega⟩
      · rintro ⟨c', ⟨h1, _⟩, _, h3⟩
        have : m = p := by omega
        subst this
        exact ⟨rfl, h1⟩
    · simp
    · cases h; exact Or.inr rfl
  · have hb' : buf.length ≤ FIXED_HEADER_LEN + FRAG_ID_LEN ∨
        interPayloadLen (pdu.length - ctx.pos) buf.length = 0 := by
      rcases hb with hb | hb
      · exact Or.inl hb
      · right; rw [hb, interPayloadLen_eq]; omega
    rw [ho, encapFragPreview_err_sizeBuffer hpos hf hb']
    simp

/-- The previewed payload length is the number of PDU bytes the packet carries: they sit behind
the 2-byte header and the fragment id and continue the PDU at the context position. -/
theorem C18_frag_preview_payload (pdu : Bytes) (ctx : FragCtx) (buf : Bytes) (k : PktType)
    (p n : Nat) (h : encapFragPreview pdu.length ctx buf.length = .ok ⟨k, p, n⟩) :
    slice (encapFrag pdu ctx buf).2 (FIXED_HEADER_LEN + FRAG_ID_LEN) p
      = some ((pdu.drop ctx.pos).take p) ∧ ctx.pos + p ≤ pdu.length := by
  have hc := encapFrag_cases pdu ctx buf
  dsimp only at hc
  rcases hc with ⟨hpos, ho⟩ | ⟨hpos, hf, ho⟩ | ⟨hpos, hf, hb, hn1, hnr, ho, _⟩ | ⟨hpos, hf, hb, ho⟩
  · rw [encapFragPreview_beyond hpos] at h; cases h
  · rw [encapFragPreview_end hpos hf.1 hf.2] at h
    cases h
    rw [ho]
    refine ⟨?_, by omega⟩
    have hl : (pdu.drop ctx.pos).length = pdu.length - ctx.pos := List.length_drop
    rw [List.take_of_length_le (by omega)]
    simp only [List.append_assoc]
    rw [← List.append_assoc (be16 _) [u8 ctx.fragId]]
    exact slice_mid' (be16 _ ++ [u8 ctx.fragId]) _ _ hl
  · have hn0 : interPayloadLen (pdu.length - ctx.pos) buf.length ≠ 0 := by omega
    rw [encapFragPreview_inter hpos hf hb hn0] at h
    cases h
    rw [ho]
    refine ⟨?_, by omega⟩
    generalize interPayloadLen (pdu.length - ctx.pos) buf.length = m at hnr ⊢
    have hl : ((pdu.drop ctx.pos).take m).length = m := by
      rw [List.length_take, List.length_drop]; omega
    exact slice_mid' (be16 _ ++ [u8 ctx.fragId]) _ _ hl
  · have hb' : buf.length ≤ FIXED_HEADER_LEN + FRAG_ID_LEN ∨
        interPayloadLen (pdu.length - ctx.pos) buf.length = 0 := by
      rcases hb with hb | hb
      · exact Or.inl hb
      · right; rw [hb, interPayloadLen_eq]; omega
    rw [encapFragPreview_err_sizeBuffer hpos hf hb'] at h; cases h

/-- continuing the 5000-byte PDU after a first fragment of 4084 bytes: end packet, 916 bytes of
payload, 923 bytes in all -/
example : encapFragPreview bigPdu.length ⟨1, 0xDEADBEEF, 4084⟩ bigBuf.length = .ok ⟨.end_, 916, 923⟩ ∧
    (encapFrag bigPdu ⟨1, 0xDEADBEEF, 4084⟩ bigBuf).1 = .ok (.completed 923) ∧
    916 = bigPdu.length - 4084 := by decide +kernel
/-- an intermediate fragment: 12 bytes of payload in a 15-byte buffer -/
example : encapFragPreview bigPdu.length ⟨1, 0xDEADBEEF, 100⟩ buf15.length = .ok ⟨.inter, 12, 15⟩ ∧
    (encapFrag bigPdu ⟨1, 0xDEADBEEF, 100⟩ buf15).1 = .ok (.fragmented 15 ⟨1, 0xDEADBEEF, 112⟩) := by
  decide +kernel
/-- errors -/
example : encapFragPreview smallPdu.length ⟨1, 0, 11⟩ 40 = .err .pduLength ∧
    (encapFrag smallPdu ⟨1, 0, 11⟩ buf40).1 = .err .pduLength ∧
    encapFragPreview smallPdu.length ⟨1, 0, 4⟩ 3 = .err .sizeBuffer ∧
    (encapFrag smallPdu ⟨1, 0, 4⟩ [1, 2, 3]).1 = .err .sizeBuffer := by decide +kernel
/-- the payload bytes -/
example : slice (encapFrag smallPdu ⟨1, 0, 4⟩ [0, 0, 0, 0, 0, 0, 0]).2 3 4 = some [14, 15, 16, 17] ∧
    encapFragPreview smallPdu.length ⟨1, 0, 4⟩ 7 = .ok ⟨.inter, 4, 7⟩ := by decide +kernel

end Gse

#print axioms Gse.C18_preview_emitted
#print axioms Gse.C18_preview_eq
#print axioms Gse.C18_preview
#print axioms Gse.C18_frag_preview
#print axioms Gse.C18_frag_preview_payload
