/-
Property C07 (frame part) — "A packet carrying a different fragment id, accepted or rejected, never
alters or destroys a reassembly in progress, even when both ids share a memory slot, unless it is a
first fragment claiming that slot; a new first fragment on the same id restarts only that id."

`ctxOf ds fid` is the reassembly in progress for fragment id `fid`: the context (with its buffer)
saved under exactly this id, if any (`C07_ctxOf_iff`).  All theorems hold for every CRC calculator,
every extension manager, every byte buffer and every state satisfying `Dec.Inv` (every reachable
state, `C05_inv_reachable`): any number of slots, ids sharing a slot (`i % n = j % n`) included.
-/
import GseVerif.Lemmas.DecapInv

namespace Gse
open Gen DFix

/-! ### Vocabulary -/

/-- the reassembly in progress for fragment id `fid`: what `take_frag(fid)` would return -/
def ctxOf (ds : Dec) (fid : Nat) : Option (Ctx × Storage) :=
  match ds.mem.frags[fid % ds.mem.maxFragId]? with
  | some (some (c, s)) => if c.fragId = fid then some (c, s) else none
  | _ => none

/-- `ctxOf ds fid` is the saved context whose fragment id is `fid`, wherever it is in the slot
array (under the invariant it can only be in slot `fid % n`, so it is unique) -/
theorem C07_ctxOf_iff (ds : Dec) (h : ds.Inv) (fid : Nat) (c : Ctx) (s : Storage) :
    ctxOf ds fid = some (c, s) ↔ (some (c, s) ∈ ds.mem.frags ∧ c.fragId = fid) := by
  unfold ctxOf
  constructor
  · intro hc
    split at hc
    · rename_i c' s' hslot
      split at hc
      · rename_i hf
        cases hc
        exact ⟨List.mem_of_getElem? hslot, hf⟩
      · cases hc
    · cases hc
  · rintro ⟨hm, hf⟩
    obtain ⟨k, hk⟩ := List.mem_iff_getElem?.mp hm
    have := h.2.2 k c s hk
    rw [hf] at this
    rw [this, hk]
    simp [hf]

/-- the fixture `d2` (2 slots; id 2 open in slot 0, id 1 open in slot 1, buffer 1 free) is
reachable -/
theorem C07_d2_inv : d2.Inv :=
  Dec.inv_run zcrc simpleMgr (Dec.inv_new 2 8)
    [.provision (st8 1), .provision (st8 2), .provision (st8 3), .decap (pFirst 1),
     .decap (pFirst 2)]

example : (ctxOf d2 1).map (fun cs => (cs.1.fragId, cs.1.pduLen, cs.2.id)) = some (1, 3, 3) ∧
    (ctxOf d2 2).map (fun cs => (cs.1.fragId, cs.1.pduLen, cs.2.id)) = some (2, 3, 2) ∧
    ctxOf d2 3 = none := by decide
example : some (⟨.broadcast, 0x0800, 1, 7, 3, false, []⟩, ⟨3, [0x11, 0x12, 0x13, 0, 0, 0, 0, 0]⟩)
    ∈ d2.mem.frags := by decide

/-- the packet kind when `decap` reaches a per-kind function (Lemmas/DecapInv.lean) is `none` exactly
for a buffer shorter than the fixed header, the padding pattern, or a buffer shorter than the
packet it announces: the buffers rejected (or skipped) before dispatch -/
theorem C07_dispatchKind_none_iff (buf : Bytes) :
    dispatchKind buf = none ↔
      (buf.length < FIXED_HEADER_LEN ∨
        ∃ w, get16 buf 0 = some w ∧
          (readHeader w = .ok none ∨
            ∃ gseLen k lt, readHeader w = .ok (some (gseLen, k, lt)) ∧
              buf.length < gseLen + FIXED_HEADER_LEN)) := by
  unfold dispatchKind
  constructor
  · intro h
    by_cases hl : buf.length < FIXED_HEADER_LEN
    · exact .inl hl
    · obtain ⟨w, hw⟩ := get16_some_of_le (b := buf) (off := 0) (by gse_omega)
      obtain ⟨r, hr⟩ := C14_read_ok w (get16_lt hw)
      refine .inr ⟨w, hw, ?_⟩
      rw [hw] at h
      simp only [hr] at h
      match r, hr, h with
      | none, hr, _ => exact .inl hr
      | some (gseLen, k, lt), hr, h =>
        simp only [] at h
        split at h
        · rename_i hlt; exact .inr ⟨gseLen, k, lt, hr, hlt⟩
        · cases h
  · rintro (hl | ⟨w, hw, hr | ⟨gseLen, k, lt, hr, hlt⟩⟩)
    · have : get16 buf 0 = none := by
        unfold get16; rw [slice_eq_none.mpr (by gse_omega)]
      rw [this]
    · rw [hw]; simp only [hr]
    · rw [hw]; simp only [hr]; rw [if_pos hlt]

example : dispatchKind pPad = none ∧ dispatchKind [0xA0] = none ∧
    dispatchKind [0xA0, 0x08, 1, 0] = none ∧ dispatchKind (pInter 3) = some .inter := by decide

/-! ### 1. Intermediate and end packets of another id -/

/-- changing only slot `j % n`, from and to contexts of id `j`, leaves every other id alone —
ids sharing the slot included -/
theorem C07_ctxOf_set_other {ds ds' : Dec} {j : Nat} {v : Option (Ctx × Storage)}
    (hn : ds'.mem.maxFragId = ds.mem.maxFragId)
    (hfr : ds'.mem.frags = ds.mem.frags.set (j % ds.mem.maxFragId) v)
    (hv : ∀ c s, v = some (c, s) → c.fragId = j)
    (hold : ∀ c s, ds.mem.frags[j % ds.mem.maxFragId]? = some (some (c, s)) → c.fragId = j)
    (i : Nat) (hij : i ≠ j) : ctxOf ds' i = ctxOf ds i := by
  unfold ctxOf
  rw [hn, hfr]
  by_cases hs : j % ds.mem.maxFragId = i % ds.mem.maxFragId
  · rw [← hs, List.getElem?_set]
    simp only [if_true]
    -- both sides are `none`: the slot holds / held nothing or a context of id `j ≠ i`
    have hl : (match (if j % ds.mem.maxFragId < ds.mem.frags.length then some v else none) with
        | some (some (c, s)) => if c.fragId = i then some (c, s) else none
        | _ => none) = none := by
      split
      · rename_i c s hsl
        split at hsl
        · cases hsl
          rw [if_neg (by rw [hv c s rfl]; exact Ne.symm hij)]
        · cases hsl
      · rfl
    have hr : (match ds.mem.frags[j % ds.mem.maxFragId]? with
        | some (some (c, s)) => if c.fragId = i then some (c, s) else none
        | _ => none) = none := by
      split
      · rename_i c s hsl
        rw [if_neg (by rw [hold c s hsl]; exact Ne.symm hij)]
      · rfl
    rw [hl, hr]
  · rw [List.getElem?_set_ne hs]

/-- An intermediate or end packet whose fragment id byte is `j` — accepted, or rejected for any
reason (unknown id, aliasing id, size, total length, CRC, truncated buffer) — leaves the reassembly
in progress of every other id `i` exactly as it was: same context, same buffer, same bytes.  Also
when `i % n = j % n`. -/
theorem C07_frame_inter_end (crc : CrcFn) (mgr : MgrFn) (ds : Dec) (buf : Bytes) (h : ds.Inv)
    {w gseLen j : Nat} {k : PktType} {lt : LabelType}
    (hw : get16 buf 0 = some w) (hr : readHeader w = .ok (some (gseLen, k, lt)))
    (hk : k = .inter ∨ k = .end_) (hj : get8 buf FIXED_HEADER_LEN = some j) :
    ∀ i, i ≠ j → ctxOf (decap crc mgr ds buf).st i = ctxOf ds i := by
  intro i hij
  obtain ⟨_, hg, -⟩ := decap_good crc mgr ds buf ((Dec.inv_iff ds).mp h)
  rcases hg.eff with heq | ⟨fid, v, hfid, hfr, hv, hfirst | ⟨-, c, s, hslot, hcf⟩⟩
  · unfold ctxOf; rw [hg.cfg.1, heq]
  · -- a first fragment: excluded by the header
    exfalso
    by_cases hl : gseLen + FIXED_HEADER_LEN ≤ buf.length
    · rw [dispatchKind_eq hw hr hl] at hfirst
      cases hfirst
      rcases hk with hk | hk <;> cases hk
    · have : dispatchKind buf = none :=
        (C07_dispatchKind_none_iff buf).mpr (.inr ⟨w, hw, .inr ⟨gseLen, k, lt, hr, by omega⟩⟩)
      rw [this] at hfirst; cases hfirst
  · rw [hj] at hfid; cases hfid
    refine C07_ctxOf_set_other hg.cfg.1 hfr hv ?_ i hij
    intro c' s' hslot'
    rw [hslot] at hslot'; cases hslot'; exact hcf

-- a stray intermediate of id 3 (aliasing id 1 on slot 1) is refused; ids 1 and 2 are untouched
example : readHeader 0x3002 = .ok (some (2, .inter, .reuse)) ∧ get16 (pInter 3) 0 = some 0x3002 ∧
    get8 (pInter 3) FIXED_HEADER_LEN = some 3 := by decide
example : ctxOf (decap zcrc simpleMgr d2 (pInter 3)).st 1 = ctxOf d2 1 :=
  C07_frame_inter_end zcrc simpleMgr d2 (pInter 3) C07_d2_inv (w := 0x3002) (gseLen := 2)
    (k := .inter) (lt := .reuse) (j := 3) (by decide) (by decide) (.inl rfl) (by decide) 1 (by decide)
-- an accepted intermediate of id 1 leaves id 2 untouched (and advances id 1)
example : ctxOf (decap zcrc simpleMgr d2 (pInter 1)).st 2 = ctxOf d2 2 ∧
    (ctxOf (decap zcrc simpleMgr d2 (pInter 1)).st 1).map (·.1.pduLen) = some 4 := by decide
-- an end packet of id 3 with a wrong CRC field: refused, ids 1 and 2 untouched
example : (decap defaultCrc simpleMgr d2 (pEnd 3)).res = .err (.memory .undefinedId) ∧
    ctxOf (decap defaultCrc simpleMgr d2 (pEnd 3)).st 1 = ctxOf d2 1 := by decide

/-! ### 2. Complete packets, padding, buffers rejected before dispatch -/

/-- Complete packets (accepted or rejected), padding and any buffer rejected before dispatch
(shorter than the fixed header, or than the packet it announces) leave the whole slot array
unchanged. -/
theorem C07_frame_complete_padding (crc : CrcFn) (mgr : MgrFn) (ds : Dec) (buf : Bytes)
    (h : ds.Inv) (hk : dispatchKind buf = none ∨ dispatchKind buf = some .complete) :
    (decap crc mgr ds buf).st.mem.frags = ds.mem.frags := by
  obtain ⟨_, hg, -⟩ := decap_good crc mgr ds buf ((Dec.inv_iff ds).mp h)
  rcases hg.eff with heq | ⟨fid, v, -, -, -, hfirst | ⟨hie, -⟩⟩
  · exact heq
  · rcases hk with hk | hk <;> rw [hk] at hfirst <;> cases hfirst
  · rcases hk with hk | hk <;> rw [hk] at hie <;> rcases hie with hie | hie <;> cases hie

/-- the kind is `complete` when the header says so and the buffer holds the whole packet -/
theorem C07_dispatchKind_complete {buf : Bytes} {w gseLen : Nat} {lt : LabelType}
    (hw : get16 buf 0 = some w) (hr : readHeader w = .ok (some (gseLen, .complete, lt)))
    (hl : gseLen + FIXED_HEADER_LEN ≤ buf.length) : dispatchKind buf = some .complete :=
  dispatchKind_eq hw hr hl

example : dispatchKind pComplete = some .complete :=
  C07_dispatchKind_complete (w := 0xE005) (gseLen := 5) (lt := .broadcast) (by decide) (by decide)
    (by decide)
example : (decap zcrc simpleMgr d2 pComplete).st.mem.frags = d2.mem.frags :=
  C07_frame_complete_padding _ _ _ _ C07_d2_inv (.inr (by decide))
example : (decap zcrc simpleMgr d2 pPad).st.mem.frags = d2.mem.frags :=
  C07_frame_complete_padding _ _ _ _ C07_d2_inv (.inl (by decide))
-- a first fragment of id 3 announcing 8 bytes in a 4-byte buffer: rejected before dispatch
example : (decap zcrc simpleMgr d2 [0xA0, 0x08, 3, 0]).st.mem.frags = d2.mem.frags :=
  C07_frame_complete_padding _ _ _ _ C07_d2_inv (.inl (by decide))

/-! ### 3. First fragments -/

/-- A first fragment with fragment id `j`, accepted or rejected, changes at most slot
`j % max_frag_id`: every other slot is unchanged … -/
theorem C07_frame_first (crc : CrcFn) (mgr : MgrFn) (ds : Dec) (buf : Bytes) (h : ds.Inv)
    {j : Nat} (hj : get8 buf FIXED_HEADER_LEN = some j) :
    ∀ k, k ≠ j % ds.mem.maxFragId →
      (decap crc mgr ds buf).st.mem.frags[k]? = ds.mem.frags[k]? := by
  intro k hk
  obtain ⟨_, hg, -⟩ := decap_good crc mgr ds buf ((Dec.inv_iff ds).mp h)
  rcases hg.eff with heq | ⟨fid, v, hfid, hfr, -, -⟩
  · rw [heq]
  · rw [hj] at hfid; cases hfid
    rw [hfr, List.getElem?_set_ne (Ne.symm hk)]

/-- … hence the reassembly in progress of every id that does not share the slot is untouched
(whatever the kind of the packet, in fact: the statement does not ask for a first fragment) -/
theorem C07_frame_first_ctx (crc : CrcFn) (mgr : MgrFn) (ds : Dec) (buf : Bytes) (h : ds.Inv)
    {j : Nat} (hj : get8 buf FIXED_HEADER_LEN = some j) :
    ∀ i, i % ds.mem.maxFragId ≠ j % ds.mem.maxFragId →
      ctxOf (decap crc mgr ds buf).st i = ctxOf ds i := by
  intro i hi
  obtain ⟨_, hg, -⟩ := decap_good crc mgr ds buf ((Dec.inv_iff ds).mp h)
  unfold ctxOf
  rw [hg.cfg.1, C07_frame_first crc mgr ds buf h hj _ hi]

-- a first fragment of id 3 claims slot 1 (destroying id 1, which shares it); slot 0 / id 2 untouched
example : (decap zcrc simpleMgr d2 (pFirst 3)).st.mem.frags[0]? = d2.mem.frags[0]? :=
  C07_frame_first zcrc simpleMgr d2 (pFirst 3) C07_d2_inv (j := 3) (by decide) 0 (by decide)
example : ctxOf (decap zcrc simpleMgr d2 (pFirst 3)).st 2 = ctxOf d2 2 :=
  C07_frame_first_ctx zcrc simpleMgr d2 (pFirst 3) C07_d2_inv (j := 3) (by decide) 2 (by decide)
-- the exception in the property: the first fragment claiming the slot does replace id 1
example : ctxOf (decap zcrc simpleMgr d2 (pFirst 3)).st 1 = none ∧ (ctxOf d2 1).isSome := by decide

/-! ### 4. A new first fragment restarts the reassembly -/

/-- If slot `j % n` held a context (of id `j`, or of an id sharing the slot) and a first fragment
of id `j` is accepted (`Ok(FragmentedPkt)`), then afterwards the slot holds a context of id `j`
whose accumulated length is that packet's payload length — the payload is what follows the
fragment id, total length, protocol type, label and extension headers, `extLen` bytes of them; it
is the last `pdu_len` bytes of the packet and is now at the front of the buffer — stored in the
very buffer that was in the slot before (same identity), and the free list is unchanged. -/
theorem C07_restart (crc : CrcFn) (mgr : MgrFn) (ds : Dec) (buf : Bytes) (h : ds.Inv)
    {w gseLen j : Nat} {lt : LabelType} {c0 : Ctx} {s0 : Storage} {md : Meta}
    (hw : get16 buf 0 = some w) (hr : readHeader w = .ok (some (gseLen, .first, lt)))
    (hj : get8 buf FIXED_HEADER_LEN = some j)
    (hslot : ds.mem.frags[j % ds.mem.maxFragId]? = some (some (c0, s0)))
    (hacc : (decap crc mgr ds buf).res = .ok (.fragmented md)) :
    ∃ c s extLen,
      (decap crc mgr ds buf).st.mem.frags[j % ds.mem.maxFragId]? = some (some (c, s)) ∧
      ctxOf (decap crc mgr ds buf).st j = some (c, s) ∧
      c.fragId = j ∧ s.id = s0.id ∧ s.data.length = s0.data.length ∧
      (decap crc mgr ds buf).st.mem.storages = ds.mem.storages ∧
      c.pduLen + (FRAG_ID_LEN + TOTAL_LENGTH_LEN + lt.len + extLen + PROTOCOL_LEN) = gseLen ∧
      (∀ pt0, get16 buf (FIXED_HEADER_LEN + FRAG_ID_LEN + TOTAL_LENGTH_LEN) = some pt0 →
        SECOND_RANGE_PTYPE ≤ pt0 → extLen = 0) ∧
      slice s.data 0 c.pduLen = slice buf (gseLen + FIXED_HEADER_LEN - c.pduLen) c.pduLen ∧
      (slice s.data 0 c.pduLen).isSome := by
  have hi := (Dec.inv_iff ds).mp h
  obtain ⟨-, hlen4⟩ := C14_read_gen w (get16_lt hw) gseLen .first lt hr
  -- the buffer holds the whole packet, else the call is rejected before dispatch
  have hl : gseLen + FIXED_HEADER_LEN ≤ buf.length := by
    apply Nat.le_of_not_lt
    intro hlt
    have hlen : ¬ buf.length < FIXED_HEADER_LEN := by
      intro hh
      have : get16 buf 0 = none := by unfold get16; rw [slice_eq_none.mpr (by gse_omega)]
      rw [this] at hw; cases hw
    unfold decap at hacc
    simp only [hw, hr] at hacc
    rw [if_neg hlen, if_pos hlt] at hacc
    simp [Dec.fail] at hacc
  have hd := decap_dispatch_kind crc mgr ds hw hr hl
  simp only [] at hd
  rw [hd] at hacc ⊢
  obtain ⟨fid, pt0, wk, c, st, m1, d, data, m2, hfid, hcf, hpt0, hwalk, hsum, hnf, hsl, hbl, hsv,
    hst, -⟩ := decapFirst_accept mgr ds buf lt _ gseLen hi rfl hl hlen4 md hacc
  rw [hj] at hfid; cases hfid
  -- `new_frag` on an occupied slot reuses its buffer and leaves the free list alone
  obtain ⟨-, hm1, hc1, h0, hfr1, hnone, -⟩ := hi.newFrag_ok hnf
  have hrep := C17_newFrag_replace ds.mem (Nat.pos_of_ne_zero h0) c c0 s0 (by rw [hcf]; exact hslot)
  rw [hnf] at hrep
  have hst0 : st = s0 := by
    have := (Prod.mk.inj hrep).1; exact (Prod.mk.inj (Res.ok.inj this)).2
  have hm1e := (Prod.mk.inj hrep).2
  subst hst0
  -- `save_frag` fills the slot
  have hsv' := (C17_saveFrag_free m1 (hc1.1 ▸ Nat.pos_of_ne_zero h0) (c, { st with data := data })
    (by simpa [hc1.1] using hnone)).1
  rw [hsv] at hsv'
  have hm2 := (Prod.mk.inj hsv').2
  have hlt := hi.1.slot_lt h0 j
  have hfr2 : m2.frags[j % ds.mem.maxFragId]? = some (some (c, { st with data := data })) := by
    rw [hm2]
    simp only [hc1.1, hcf, hfr1]
    rw [List.getElem?_set_self (by rw [List.length_set]; exact hlt)]
  have hdl := slice_length hsl
  obtain ⟨_, _, hspec⟩ := blit_spec hbl
  rw [hdl] at hspec
  refine ⟨c, { st with data := data }, wk.len, ?_, ?_, hcf, rfl, blit_length hbl, ?_, hsum, ?_, ?_,
    ?_⟩
  · rw [hst]; exact hfr2
  · unfold ctxOf
    rw [hst, hm2]
    simp only [hc1.1, hcf, hfr1]
    rw [List.getElem?_set_self (by rw [List.length_set]; exact hlt)]
    simp [hcf]
  · rw [hst, hm2, hm1e]
  · intro pt0' hpt0' hge
    rw [hpt0] at hpt0'; cases hpt0'
    rw [walkOf_noext _ _ _ _ _ hge] at hwalk
    cases hwalk; rfl
  · rw [hspec, hsl]
  · rw [hspec]; rfl

-- id 1 is open in slot 1 (3 bytes accumulated in buffer 3); a new first fragment of id 1 restarts it
example : ∃ c s extLen,
    (decap zcrc simpleMgr d2 (pFirst 1)).st.mem.frags[1 % d2.mem.maxFragId]? = some (some (c, s)) ∧
    ctxOf (decap zcrc simpleMgr d2 (pFirst 1)).st 1 = some (c, s) ∧
    c.fragId = 1 ∧ s.id = 3 ∧ s.data.length = 8 ∧
    (decap zcrc simpleMgr d2 (pFirst 1)).st.mem.storages = d2.mem.storages ∧
    c.pduLen + (FRAG_ID_LEN + TOTAL_LENGTH_LEN + LabelType.broadcast.len + extLen + PROTOCOL_LEN) = 8 ∧
    (∀ pt0, get16 (pFirst 1) (FIXED_HEADER_LEN + FRAG_ID_LEN + TOTAL_LENGTH_LEN) = some pt0 →
      SECOND_RANGE_PTYPE ≤ pt0 → extLen = 0) ∧
    slice s.data 0 c.pduLen = slice (pFirst 1) (8 + FIXED_HEADER_LEN - c.pduLen) c.pduLen ∧
    (slice s.data 0 c.pduLen).isSome :=
  C07_restart zcrc simpleMgr d2 (pFirst 1) C07_d2_inv (w := 0xA008) (gseLen := 8) (j := 1)
    (lt := .broadcast) (c0 := ⟨.broadcast, 0x0800, 1, 7, 3, false, []⟩)
    (s0 := ⟨3, [0x11, 0x12, 0x13, 0, 0, 0, 0, 0]⟩) (md := ⟨0, 0x0800, .broadcast, []⟩)
    (by decide) (by decide) (by decide) (by decide) (by decide)
-- … and a first fragment of the aliasing id 3 on a state where id 1 had advanced to 4 bytes:
-- the slot now holds id 3 with 3 bytes, in the same buffer 3; the free list still holds buffer 1
example :
    ((decap zcrc simpleMgr (decap zcrc simpleMgr d2 (pInter 1)).st (pFirst 3)).st.mem.frags.map
      (Option.map (fun cs => (cs.1.fragId, cs.1.pduLen, cs.2.id)))) =
      [some (2, 3, 2), some (3, 3, 3)] ∧
    (decap zcrc simpleMgr (decap zcrc simpleMgr d2 (pInter 1)).st (pFirst 3)).st.mem.storages =
      [st8 1] := by decide

#print axioms C07_ctxOf_iff
#print axioms C07_d2_inv
#print axioms C07_dispatchKind_none_iff
#print axioms C07_ctxOf_set_other
#print axioms C07_frame_inter_end
#print axioms C07_frame_complete_padding
#print axioms C07_dispatchKind_complete
#print axioms C07_frame_first
#print axioms C07_frame_first_ctx
#print axioms C07_restart

end Gse
