/-
Property C01 — "Unfragmented round trip preserves PDU, protocol type and label".

Whenever `encap` reports a completed (unfragmented) packet for a PDU, protocol type and label,
giving exactly the reported number of bytes (alone, followed by further bytes, or the whole output
buffer) to a decapsulator whose top free storage can hold the PDU yields a completed PDU with the
same bytes, length, protocol type and label, and `decap` consumes exactly the reported length.
`encap` reports a completed packet exactly when the label is not the reserved one, the protocol
type is outside 0x100..0x5FF, and protocol type, label *as written* (empty after a re-use
substitution) and PDU fit in the 4095-byte GSE length and the packet fits in the buffer.

Quantifiers: every CRC calculator, extension manager, encapsulator state (re-use enabled or
disabled, any counter), PDU, fragment id, label, output buffer (any size, also > 4097), receiver
state, storage of size ≥ PDU length; protocol types 0x0600..=0xFFFF (no extension headers).

The label the receiver reports is resolved from its own label memory when the packet carries
label type re-use; the round trip therefore needs the two label memories to agree in that case
(hypothesis `hsync`; for lock-step histories this is property C04).  One more hypothesis is an
invariant of the encapsulator: it never remembers a broadcast label (`Enc.new` and
`check_label_re_use` establish and keep it: `checkLabelReUse_last_ne_broadcast`); without it the
statement is false, see the `example` after `C01_resolve`.
-/
import GseVerif.Lemmas.EncapLayer
import GseVerif.Lemmas.DecapLayer

namespace Gse
open Gen

/-! Fixtures for the `example`s. -/
namespace C01
def crc0 : CrcFn := fun _ _ _ _ => 0xDEADBEEF
def lab6 : Label := .six 1 2 3 4 5 6
def pdu5 : Bytes := [10, 11, 12, 13, 14]
def buf40 : Bytes := List.replicate 40 0xEE
def sto (i n : Nat) : Storage := ⟨i, List.replicate n 0xAA⟩
/-- receiver: 2 slots, two free 8-byte buffers, nothing remembered -/
def ds0 : Dec := ⟨⟨[sto 1 8, sto 2 8], [none, none], 2, 8, 4⟩, none⟩
/-- the same receiver after a packet with `lab6` -/
def ds6 : Dec := { ds0 with last := some lab6 }
/-- an encapsulator that has just sent `lab6` with re-use enabled -/
def esSent : Enc := ⟨true, 0, 0, some lab6⟩
end C01
open C01

/-! ### 1. When does `encap` complete -/

/-- `encap` reports a completed packet exactly when the label is not the reserved one, the protocol
type is not in the refused range, the GSE length `2 + |label as written| + |PDU|` is at most 4095
and the packet of `4 + |label as written| + |PDU|` bytes fits in the buffer; the reported length
is that packet length. -/
theorem C01_complete_iff (crc : CrcFn) (es : Enc) (pdu : Bytes) (fid pt : Nat) (label : Label)
    (buf : Bytes) (n : Nat) :
    (encap crc es pdu fid pt label buf).res = .ok (.completed n) ↔
      (label ≠ zeroLabel ∧ ¬(MAX_MANDATORY_VAL_PTYPE ≤ pt ∧ pt < SECOND_RANGE_PTYPE) ∧
        PROTOCOL_LEN + (checkLabelReUse es label).1.len + pdu.length ≤ GSE_LEN_MAX ∧
        FIXED_HEADER_LEN + PROTOCOL_LEN + (checkLabelReUse es label).1.len + pdu.length ≤ buf.length ∧
        n = FIXED_HEADER_LEN + PROTOCOL_LEN + (checkLabelReUse es label).1.len + pdu.length) := by
  have hc := encap_cases crc es pdu fid pt label buf
  dsimp only at hc
  rcases hc with ⟨h0, ho⟩ | ⟨hz, hpt, ho⟩ | ⟨hz, hpt, hf, ho⟩ | ⟨hz, hpt, hf, hb, ho⟩ |
    ⟨hz, hpt, hf, hb, ht, ho⟩ | ⟨hz, hpt, hf, hb, ht, _, ho⟩
  · rw [ho]; simp [h0]
  · rw [ho]; simp only [reduceCtorEq, false_iff]; exact fun h => h.2.1 hpt
  · rw [ho]
    simp only [Res.ok.injEq, EncStatus.completed.injEq]
    constructor
    · intro h; exact ⟨hz, hpt, by gse_omega, hf.1, by gse_omega⟩
    · intro h; gse_omega
  · rw [ho]; simp only [reduceCtorEq, false_iff]; intro h; exact hf ⟨h.2.2.2.1, by gse_omega⟩
  · rw [ho]; simp only [reduceCtorEq, false_iff]; intro h; exact hf ⟨h.2.2.2.1, by gse_omega⟩
  · rw [ho]; simp only [Res.ok.injEq, reduceCtorEq, false_iff]
    intro h; exact hf ⟨h.2.2.2.1, by gse_omega⟩

/-- the existential form, with the numerals of the current constants -/
theorem C01_complete_iff' (crc : CrcFn) (es : Enc) (pdu : Bytes) (fid pt : Nat) (label : Label)
    (buf : Bytes) :
    (∃ n, (encap crc es pdu fid pt label buf).res = .ok (.completed n)) ↔
      (label ≠ zeroLabel ∧ ¬(0x100 ≤ pt ∧ pt < 0x600) ∧
        2 + (checkLabelReUse es label).1.len + pdu.length ≤ 4095 ∧
        4 + (checkLabelReUse es label).1.len + pdu.length ≤ buf.length) := by
  constructor
  · rintro ⟨n, h⟩
    have := (C01_complete_iff crc es pdu fid pt label buf n).mp h
    simp only [MAX_MANDATORY_VAL_PTYPE, SECOND_RANGE_PTYPE, PROTOCOL_LEN, GSE_LEN_MAX,
      FIXED_HEADER_LEN] at this
    exact ⟨this.1, this.2.1, this.2.2.1, by omega⟩
  · rintro ⟨hz, hpt, h1, h2⟩
    refine ⟨_, (C01_complete_iff crc es pdu fid pt label buf _).mpr ⟨hz, ?_, ?_, ?_, rfl⟩⟩
    · simpa using hpt
    · simpa using h1
    · simp only [FIXED_HEADER_LEN, PROTOCOL_LEN]; omega

example : (encap crc0 Enc.new pdu5 1 0x0800 lab6 buf40).res = .ok (.completed 15) ∧
    (encap crc0 esSent pdu5 1 0x0800 lab6 buf40).res = .ok (.completed 9) ∧
    (checkLabelReUse esSent lab6).1 = .reuse := by decide +kernel
/-- GSE length 4096: not completed although the buffer is large (also > 4097) -/
example : ¬ ∃ n, (encap crc0 Enc.new (List.replicate 4088 7) 1 0x0800 lab6
    (List.replicate 5000 0)).res = .ok (.completed n) := by
  rw [C01_complete_iff']; decide +kernel
example : ∃ n, (encap crc0 Enc.new (List.replicate 4087 7) 1 0x0800 lab6
    (List.replicate 5000 0)).res = .ok (.completed n) := by
  rw [C01_complete_iff']; decide +kernel

/-! ### 2. How the receiver resolves the label written -/

/-- A label other than `ReUse` was requested.  If the encapsulator substituted it, the receiver
must remember the same label (`hsync`); then the receiver resolves the label written to the
label requested, and afterwards remembers it (nothing after a broadcast label). -/
theorem C01_resolve (es : Enc) (label : Label) (dlast : Option Label) (hl : label ≠ .reuse)
    (hes : es.last ≠ some .broadcast)
    (hsync : (checkLabelReUse es label).1 = .reuse → dlast = some label) :
    resolveLabel (checkLabelReUse es label).1.type (checkLabelReUse es label).1 dlast
      = .ok label (if label = .broadcast then none else some label) := by
  rcases written_cases es label with h | h
  · rw [h]
    cases label <;> first | rfl | exact absurd rfl hl
  · have hlast := written_reuse_last h hl
    have hd := hsync h
    rw [h, hd]
    cases label with
    | six => rfl
    | three => rfl
    | broadcast => exact absurd hlast hes
    | reuse => exact absurd rfl hl

/-- the invariant `es.last ≠ some .broadcast` cannot be dropped: such an (unreachable)
encapsulator substitutes a broadcast label, and a receiver in the same state refuses the packet -/
example : (checkLabelReUse ⟨true, 0, 0, some .broadcast⟩ .broadcast).1 = .reuse ∧
    resolveLabel .reuse .reuse (some .broadcast) = .bad .labelBroadcastSaved := ⟨by decide, rfl⟩
example : (Enc.new).last ≠ some .broadcast ∧ esSent.last ≠ some .broadcast := by decide

/-- `ReUse` was requested explicitly: the receiver resolves it to the 3- or 6-byte label it
remembers, and keeps remembering it. -/
theorem C01_resolve_reuse (es : Enc) (l : Label) (hl : l.type = .six ∨ l.type = .three) :
    resolveLabel (checkLabelReUse es .reuse).1.type (checkLabelReUse es .reuse).1 (some l)
      = .ok l (some l) := by
  have h : (checkLabelReUse es .reuse).1 = .reuse := by
    rcases written_cases es .reuse with h | h <;> exact h
  rw [h]
  cases l <;> first | rfl | (rcases hl with hl | hl <;> cases hl)

example : resolveLabel (checkLabelReUse esSent .reuse).1.type (checkLabelReUse esSent .reuse).1
    (some lab6) = .ok lab6 (some lab6) := C01_resolve_reuse _ _ (Or.inl rfl)

/-! ### 3. The round trip -/

section roundtrip
variable (crc : CrcFn) (mgr : MgrFn) (es : Enc) (pdu : Bytes) (fid pt : Nat) (label : Label)
  (buf : Bytes) (n : Nat) (ds : Dec) (s : Storage) (free : List Storage)

/-- **Round trip, exact form.**  `encap` completed with `n` bytes; the receiver's top free buffer
`s` can hold the PDU and resolves the label written to `want`.  Then `decap` on the first `n`
output bytes followed by anything returns `Completed` with buffer `s` holding the PDU at its
start (the rest of `s` untouched), metadata `(|PDU|, pt, want, no extensions)`, consumes exactly
`n`, takes `s` off the free list and leaves the fragment slots alone. -/
theorem C01_roundtrip_eq (rest : Bytes) (want : Label) (last' : Option Label)
    (henc : (encap crc es pdu fid pt label buf).res = .ok (.completed n))
    (hpt : SECOND_RANGE_PTYPE ≤ pt) (hpt2 : pt < 65536)
    (hs : ds.mem.storages = s :: free) (hcap : pdu.length ≤ s.data.length)
    (hr : resolveLabel (checkLabelReUse es label).1.type (checkLabelReUse es label).1 ds.last
      = .ok want last') :
    decap crc mgr ds ((encap crc es pdu fid pt label buf).buf.take n ++ rest) =
      ⟨.ok (.completed ⟨s.id, pdu ++ s.data.drop pdu.length⟩ ⟨pdu.length, pt, want, []⟩), n,
       ⟨{ ds.mem with storages := free }, last'⟩⟩ := by
  have hc := encap_cases crc es pdu fid pt label buf
  dsimp only at hc
  rcases hc with ⟨_, ho⟩ | ⟨_, _, ho⟩ | ⟨hz, _, hf, ho⟩ | ⟨_, _, _, _, ho⟩ |
    ⟨_, _, _, _, _, ho⟩ | ⟨_, _, _, _, _, _, ho⟩
  all_goals rw [ho] at henc ⊢
  all_goals simp only [Res.ok.injEq, EncStatus.completed.injEq, reduceCtorEq] at henc
  have hL := completePkt_length (checkLabelReUse es label).1 pt pdu
  have htake : (completePkt (checkLabelReUse es label).1 pt pdu
      ++ buf.drop (FIXED_HEADER_LEN + PROTOCOL_LEN + (checkLabelReUse es label).1.len + pdu.length)).take n
      = completePkt (checkLabelReUse es label).1 pt pdu := List.take_left' (by rw [hL, henc])
  show decap crc mgr ds ((completePkt (checkLabelReUse es label).1 pt pdu
      ++ buf.drop (FIXED_HEADER_LEN + PROTOCOL_LEN + (checkLabelReUse es label).1.len + pdu.length)).take n
      ++ rest) = _
  rw [htake, decap_complete_pkt crc mgr ds rest (written_ne_zero hz) hpt hpt2 hf.2 hs hcap hr,
    hL, henc]

/-- **C01, round trip.**  `want` is the label the receiver is expected to report: the label
requested, or — when `ReUse` was requested explicitly — the 3- or 6-byte label `want` the receiver
remembers.  If the encapsulator substituted the requested label, the receiver must remember that
very label (label memories in sync). -/
theorem C01_roundtrip (rest : Bytes) (want : Label)
    (henc : (encap crc es pdu fid pt label buf).res = .ok (.completed n))
    (hpt : SECOND_RANGE_PTYPE ≤ pt) (hpt2 : pt < 65536)
    (hs : ds.mem.storages = s :: free) (hcap : pdu.length ≤ s.data.length)
    (hes : es.last ≠ some .broadcast)
    (hsync :
      (label ≠ .reuse ∧ want = label ∧
        ((checkLabelReUse es label).1 = .reuse → ds.last = some label)) ∨
      (label = .reuse ∧ ds.last = some want ∧ (want.type = .six ∨ want.type = .three))) :
    ∃ s' md ds', decap crc mgr ds ((encap crc es pdu fid pt label buf).buf.take n ++ rest)
        = ⟨.ok (.completed s' md), n, ds'⟩ ∧
      s'.id = s.id ∧ s'.data.take pdu.length = pdu ∧
      s'.data.drop pdu.length = s.data.drop pdu.length ∧ s'.data.length = s.data.length ∧
      md = ⟨pdu.length, pt, want, []⟩ ∧
      ds'.mem.storages = free ∧ ds'.mem.frags = ds.mem.frags := by
  have hr : ∃ last', resolveLabel (checkLabelReUse es label).1.type (checkLabelReUse es label).1
      ds.last = .ok want last' := by
    rcases hsync with ⟨hl, rfl, hsy⟩ | ⟨rfl, hd, hw⟩
    · exact ⟨_, C01_resolve es want ds.last hl hes hsy⟩
    · rw [hd]; exact ⟨_, C01_resolve_reuse es want hw⟩
  obtain ⟨last', hr⟩ := hr
  refine ⟨_, _, _, C01_roundtrip_eq crc mgr es pdu fid pt label buf n ds s free rest want last'
    henc hpt hpt2 hs hcap hr, rfl, ?_, ?_, ?_, rfl, rfl, rfl⟩
  · exact List.take_left' rfl
  · exact List.drop_left' rfl
  · simp only [List.length_append, List.length_drop]; omega

/-- the reported bytes alone -/
theorem C01_roundtrip_take (want : Label)
    (henc : (encap crc es pdu fid pt label buf).res = .ok (.completed n))
    (hpt : SECOND_RANGE_PTYPE ≤ pt) (hpt2 : pt < 65536)
    (hs : ds.mem.storages = s :: free) (hcap : pdu.length ≤ s.data.length)
    (hes : es.last ≠ some .broadcast)
    (hsync :
      (label ≠ .reuse ∧ want = label ∧
        ((checkLabelReUse es label).1 = .reuse → ds.last = some label)) ∨
      (label = .reuse ∧ ds.last = some want ∧ (want.type = .six ∨ want.type = .three))) :
    ∃ s' md ds', decap crc mgr ds ((encap crc es pdu fid pt label buf).buf.take n)
        = ⟨.ok (.completed s' md), n, ds'⟩ ∧
      s'.id = s.id ∧ s'.data.take pdu.length = pdu ∧
      s'.data.drop pdu.length = s.data.drop pdu.length ∧ s'.data.length = s.data.length ∧
      md = ⟨pdu.length, pt, want, []⟩ ∧
      ds'.mem.storages = free ∧ ds'.mem.frags = ds.mem.frags := by
  have := C01_roundtrip crc mgr es pdu fid pt label buf n ds s free [] want henc hpt hpt2 hs hcap
    hes hsync
  rwa [List.append_nil] at this

/-- the whole output buffer (whatever its size): still exactly `n` bytes are consumed -/
theorem C01_roundtrip_buf (want : Label)
    (henc : (encap crc es pdu fid pt label buf).res = .ok (.completed n))
    (hpt : SECOND_RANGE_PTYPE ≤ pt) (hpt2 : pt < 65536)
    (hs : ds.mem.storages = s :: free) (hcap : pdu.length ≤ s.data.length)
    (hes : es.last ≠ some .broadcast)
    (hsync :
      (label ≠ .reuse ∧ want = label ∧
        ((checkLabelReUse es label).1 = .reuse → ds.last = some label)) ∨
      (label = .reuse ∧ ds.last = some want ∧ (want.type = .six ∨ want.type = .three))) :
    ∃ s' md ds', decap crc mgr ds (encap crc es pdu fid pt label buf).buf
        = ⟨.ok (.completed s' md), n, ds'⟩ ∧
      s'.id = s.id ∧ s'.data.take pdu.length = pdu ∧
      s'.data.drop pdu.length = s.data.drop pdu.length ∧ s'.data.length = s.data.length ∧
      md = ⟨pdu.length, pt, want, []⟩ ∧
      ds'.mem.storages = free ∧ ds'.mem.frags = ds.mem.frags := by
  have := C01_roundtrip crc mgr es pdu fid pt label buf n ds s free
    ((encap crc es pdu fid pt label buf).buf.drop n) want henc hpt hpt2 hs hcap hes hsync
  rwa [List.take_append_drop] at this

end roundtrip

/-- no substitution (fresh encapsulator, fresh receiver), 6-byte label, 40-byte output buffer given
whole to the receiver -/
example : (encap crc0 Enc.new pdu5 1 0x0800 lab6 buf40).res = .ok (.completed 15) ∧
    decap crc0 simpleMgr ds0 (encap crc0 Enc.new pdu5 1 0x0800 lab6 buf40).buf =
      ⟨.ok (.completed ⟨1, [10, 11, 12, 13, 14, 0xAA, 0xAA, 0xAA]⟩ ⟨5, 0x0800, lab6, []⟩), 15,
       ⟨⟨[sto 2 8], [none, none], 2, 8, 4⟩, some lab6⟩⟩ := by decide +kernel
/-- the hypotheses of `C01_roundtrip` on that instance -/
example :=
  C01_roundtrip crc0 simpleMgr Enc.new pdu5 1 0x0800 lab6 buf40 15 ds0 (sto 1 8) [sto 2 8] [1, 2, 3]
    lab6 (by decide +kernel) (by decide) (by decide) rfl (by decide) (by decide)
    (Or.inl ⟨by decide, rfl, by decide⟩)
/-- substitution: the encapsulator has just sent `lab6`, the receiver has just received it; the
9-byte packet carries no label and the receiver reports `lab6` -/
example : (checkLabelReUse esSent lab6).1 = .reuse ∧ ds6.last = some lab6 ∧
    (encap crc0 esSent pdu5 1 0x0800 lab6 buf40).res = .ok (.completed 9) ∧
    decap crc0 simpleMgr ds6 ((encap crc0 esSent pdu5 1 0x0800 lab6 buf40).buf.take 9) =
      ⟨.ok (.completed ⟨1, [10, 11, 12, 13, 14, 0xAA, 0xAA, 0xAA]⟩ ⟨5, 0x0800, lab6, []⟩), 9,
       ⟨⟨[sto 2 8], [none, none], 2, 8, 4⟩, some lab6⟩⟩ := by decide +kernel
example :=
  C01_roundtrip_take crc0 simpleMgr esSent pdu5 1 0x0800 lab6 buf40 9 ds6 (sto 1 8) [sto 2 8]
    lab6 (by decide +kernel) (by decide) (by decide) rfl (by decide) (by decide)
    (Or.inl ⟨by decide, rfl, fun _ => rfl⟩)
/-- `ReUse` requested explicitly; the receiver remembers `lab6` and reports it -/
example :=
  C01_roundtrip_buf crc0 simpleMgr Enc.new pdu5 1 0x0800 .reuse buf40 9 ds6 (sto 1 8) [sto 2 8]
    lab6 (by decide +kernel) (by decide) (by decide) rfl (by decide) (by decide)
    (Or.inr ⟨rfl, rfl, Or.inl rfl⟩)
/-- out of sync (the receiver remembers nothing): the re-use packet is refused — `hsync` is needed -/
example : (decap crc0 simpleMgr ds0 ((encap crc0 esSent pdu5 1 0x0800 lab6 buf40).buf.take 9)).res
    = .err .noLabelSaved := by decide +kernel

end Gse

#print axioms Gse.C01_complete_iff
#print axioms Gse.C01_complete_iff'
#print axioms Gse.C01_resolve
#print axioms Gse.C01_resolve_reuse
#print axioms Gse.C01_roundtrip_eq
#print axioms Gse.C01_roundtrip
#print axioms Gse.C01_roundtrip_take
#print axioms Gse.C01_roundtrip_buf
