/-
Property C19 — "Peeking the label or fragment id agrees with decapsulation".

For every packet produced by the encapsulator (`encap`, `encap_frag`, `encap_ext`), alone or
followed by further bytes, `get_label_or_frag_id` (`peek`) returns
* the fragment id for intermediate and end packets,
* the label for start and complete packets carrying a 3-byte, 6-byte or broadcast label,
* the re-use error for start and complete packets whose label was replaced by label type re-use,
and the label it returns is the label field of the metadata `decap` reports for the same packet.

`wl := (checkLabelReUse es label).1` is the label as written by `encap` / `encap_ext`.
-/
import GseVerif.Lemmas.EncapLayer
import GseVerif.Lemmas.DecapLayer
import GseVerif.Props.C01

namespace Gse
open Gen

/-- packet length reported by an encapsulation status -/
def EncStatus.pktLen : EncStatus → Nat
  | .completed n => n
  | .fragmented n _ => n

/-! Fixtures for the `example`s (those of C01 and a 12-byte buffer that forces fragmentation). -/
namespace C19
def buf12 : Bytes := List.replicate 12 0xEE
def buf8 : Bytes := List.replicate 8 0xEE
def pdu9 : Bytes := [10, 11, 12, 13, 14, 15, 16, 17, 18]
end C19
open C01 C19

/-! ### 1. Packets of `encap` -/

/-- **Start and complete packets of `encap`.**  Whatever `encap` produced (a complete packet or a
first fragment), peeking at the reported bytes — alone or followed by anything — gives the label
as written when that is a 6-byte, 3-byte or broadcast label, and the re-use error when the label
was replaced (or `ReUse` was requested). -/
theorem C19_peek_encap (crc : CrcFn) (es : Enc) (pdu : Bytes) (fid pt : Nat) (label : Label)
    (buf rest : Bytes) (st : EncStatus)
    (henc : (encap crc es pdu fid pt label buf).res = .ok st) :
    peek ((encap crc es pdu fid pt label buf).buf.take st.pktLen ++ rest) =
      if (checkLabelReUse es label).1 = .reuse then .err .labelReuse
      else .ok (.lbl (checkLabelReUse es label).1) := by
  have hc := encap_cases crc es pdu fid pt label buf
  dsimp only at hc
  rcases hc with ⟨_, ho⟩ | ⟨_, _, ho⟩ | ⟨hz, _, hf, ho⟩ | ⟨_, _, _, _, ho⟩ |
    ⟨_, _, _, _, _, ho⟩ | ⟨_, _, _, _, _, hn, ho⟩
  all_goals rw [ho] at henc ⊢
  all_goals simp only [Res.ok.injEq, reduceCtorEq] at henc
  · subst henc
    have hL := completePkt_length (checkLabelReUse es label).1 pt pdu
    have htake : (completePkt (checkLabelReUse es label).1 pt pdu
        ++ buf.drop (FIXED_HEADER_LEN + PROTOCOL_LEN + (checkLabelReUse es label).1.len + pdu.length)).take
          (pdu.length + (checkLabelReUse es label).1.len + PROTOCOL_LEN + FIXED_HEADER_LEN)
        = completePkt (checkLabelReUse es label).1 pt pdu := List.take_left' hL
    show peek ((completePkt (checkLabelReUse es label).1 pt pdu
        ++ buf.drop (FIXED_HEADER_LEN + PROTOCOL_LEN + (checkLabelReUse es label).1.len + pdu.length)).take
          (pdu.length + (checkLabelReUse es label).1.len + PROTOCOL_LEN + FIXED_HEADER_LEN) ++ rest) = _
    rw [htake, peek_completePkt]; rfl
  · subst henc
    generalize hwl : (checkLabelReUse es label).1 = wl at hn ⊢
    generalize hk : firstPayloadLen wl.len buf.length = k at hn ⊢
    have hpl : (pdu.take k).length = k := by rw [List.length_take]; omega
    rw [firstPkt_of_len hpl]
    have hL := firstPkt_length wl fid (pdu.length + PROTOCOL_LEN + wl.len) pt (pdu.take k)
    rw [hpl] at hL
    show peek ((firstPkt wl fid (pdu.length + PROTOCOL_LEN + wl.len) pt (pdu.take k)
        ++ buf.drop (FIRST_FRAG_LEN + wl.len + k)).take (FIRST_FRAG_LEN + wl.len + k) ++ rest) = _
    rw [List.take_left' hL, peek_firstPkt]; rfl

/-- the same, spelled out by label kind -/
theorem C19_peek_encap_kinds (crc : CrcFn) (es : Enc) (pdu : Bytes) (fid pt : Nat) (label : Label)
    (buf rest : Bytes) (st : EncStatus)
    (henc : (encap crc es pdu fid pt label buf).res = .ok st) :
    ((checkLabelReUse es label).1.type = .six ∨ (checkLabelReUse es label).1.type = .three ∨
        (checkLabelReUse es label).1 = .broadcast →
      peek ((encap crc es pdu fid pt label buf).buf.take st.pktLen ++ rest)
        = .ok (.lbl (checkLabelReUse es label).1)) ∧
    ((checkLabelReUse es label).1 = .reuse →
      peek ((encap crc es pdu fid pt label buf).buf.take st.pktLen ++ rest) = .err .labelReuse) := by
  rw [C19_peek_encap crc es pdu fid pt label buf rest st henc]
  constructor
  · intro h
    rw [if_neg]
    intro hr
    rw [hr] at h
    rcases h with h | h | h <;> cases h
  · intro h; rw [if_pos h]

/-- complete packet with a 6-byte label, followed by garbage; first fragment with a 3-byte label;
substituted label -/
example : (encap crc0 Enc.new pdu5 1 0x0800 lab6 buf40).res = .ok (.completed 15) ∧
    peek ((encap crc0 Enc.new pdu5 1 0x0800 lab6 buf40).buf.take 15 ++ [1, 2, 3]) = .ok (.lbl lab6) := by
  decide +kernel
example : (encap crc0 Enc.new pdu9 7 0x0800 (.three 1 2 3) buf12).res
      = .ok (.fragmented 12 ⟨7, 0xDEADBEEF, 2⟩) ∧
    peek ((encap crc0 Enc.new pdu9 7 0x0800 (.three 1 2 3) buf12).buf.take 12) = .ok (.lbl (.three 1 2 3)) := by
  decide +kernel
example : (checkLabelReUse esSent lab6).1 = .reuse ∧
    (encap crc0 esSent pdu5 1 0x0800 lab6 buf40).res = .ok (.completed 9) ∧
    peek ((encap crc0 esSent pdu5 1 0x0800 lab6 buf40).buf.take 9) = .err .labelReuse ∧
    peek (encap crc0 Enc.new pdu5 1 0x0800 .broadcast buf40).buf = .ok (.lbl .broadcast) := by
  decide +kernel

/-! ### 2. Packets of `encap_frag` -/

/-- **Intermediate and end packets of `encap_frag`**: the fragment id of the context (a `u8`). -/
theorem C19_peek_encapFrag (pdu : Bytes) (ctx : FragCtx) (buf rest : Bytes) (st : EncStatus)
    (hfid : ctx.fragId < 256) (henc : (encapFrag pdu ctx buf).1 = .ok st) :
    peek ((encapFrag pdu ctx buf).2.take st.pktLen ++ rest) = .ok (.fragId ctx.fragId) := by
  have hc := encapFrag_cases pdu ctx buf
  dsimp only at hc
  rcases hc with ⟨_, ho⟩ | ⟨hpos, hf, ho⟩ | ⟨hpos, hf, hb, hn1, hnr, ho, _⟩ | ⟨_, _, _, ho⟩
  all_goals rw [ho] at henc ⊢
  all_goals simp only [Res.ok.injEq, reduceCtorEq] at henc
  · subst henc
    have hpl : (pdu.drop ctx.pos).length = pdu.length - ctx.pos := List.length_drop
    rw [endPkt_of_len hpl]
    have hL := endPkt_length ctx.fragId (pdu.drop ctx.pos) ctx.crc
    rw [hpl] at hL
    show peek ((endPkt ctx.fragId (pdu.drop ctx.pos) ctx.crc ++ buf.drop _).take
        (FIXED_HEADER_LEN + FRAG_ID_LEN + (pdu.length - ctx.pos) + CRC_LEN) ++ rest) = _
    rw [List.take_left' hL, peek_endPkt hfid]
  · subst henc
    generalize interPayloadLen (pdu.length - ctx.pos) buf.length = k at hn1 hnr ⊢
    have hpl : ((pdu.drop ctx.pos).take k).length = k := by
      rw [List.length_take, List.length_drop]; omega
    rw [interPkt_of_len hpl]
    have hL := interPkt_length ctx.fragId ((pdu.drop ctx.pos).take k)
    rw [hpl] at hL
    show peek ((interPkt ctx.fragId ((pdu.drop ctx.pos).take k) ++ buf.drop _).take
        (FIXED_HEADER_LEN + (FRAG_ID_LEN + k)) ++ rest) = _
    rw [List.take_left' hL, peek_interPkt hfid _ _ (by rw [hpl]; omega)]

/-- an intermediate fragment (8-byte buffer) and the end fragment (40-byte buffer) of `pdu9` -/
example : (encapFrag pdu9 ⟨7, 0xDEADBEEF, 2⟩ buf8).1 = .ok (.fragmented 8 ⟨7, 0xDEADBEEF, 7⟩) ∧
    peek ((encapFrag pdu9 ⟨7, 0xDEADBEEF, 2⟩ buf8).2.take 8) = .ok (.fragId 7) ∧
    (encapFrag pdu9 ⟨7, 0xDEADBEEF, 7⟩ buf40).1 = .ok (.completed 9) ∧
    peek ((encapFrag pdu9 ⟨7, 0xDEADBEEF, 7⟩ buf40).2.take 9 ++ [0, 0]) = .ok (.fragId 7) := by
  decide +kernel

/-! ### 3. Agreement with `decap` -/

/-- a label type other than re-use resolves to the label carried, whatever the receiver remembers -/
private theorem resolve_carried {wl want : Label} {last last' : Option Label} (hne : wl ≠ .reuse)
    (hr : resolveLabel wl.type wl last = .ok want last') : want = wl := by
  cases wl
  · simp only [Label.type, resolveLabel, LabelRes.ok.injEq] at hr; exact hr.1.symm
  · simp only [Label.type, resolveLabel, LabelRes.ok.injEq] at hr; exact hr.1.symm
  · simp only [Label.type, resolveLabel, LabelRes.ok.injEq] at hr; exact hr.1.symm
  · exact absurd rfl hne

/-- **Peek agrees with `decap`** in the situation of the unfragmented round trip (C01): `encap`
completed with `n` bytes, the receiver's top free buffer can hold the PDU and the receiver
resolves the label written (`hr`; discharged by `C01_resolve` / `C01_resolve_reuse`).  Then on
those `n` bytes, alone or followed by anything:
* if `peek` returns a label, `decap` completes and reports that very label in its metadata;
* `peek` returns the re-use error exactly when the label was replaced by label type re-use (then
  `decap` takes the label from its memory: `C01_roundtrip`);
* `peek` never answers with a fragment id or another error. -/
theorem C19_agrees_decap (crc : CrcFn) (mgr : MgrFn) (es : Enc) (pdu : Bytes) (fid pt : Nat)
    (label : Label) (buf : Bytes) (n : Nat) (ds : Dec) (s : Storage) (free : List Storage)
    (rest : Bytes) (want : Label) (last' : Option Label)
    (henc : (encap crc es pdu fid pt label buf).res = .ok (.completed n))
    (hpt : SECOND_RANGE_PTYPE ≤ pt) (hpt2 : pt < 65536)
    (hs : ds.mem.storages = s :: free) (hcap : pdu.length ≤ s.data.length)
    (hr : resolveLabel (checkLabelReUse es label).1.type (checkLabelReUse es label).1 ds.last
      = .ok want last') :
    (∀ l, peek ((encap crc es pdu fid pt label buf).buf.take n ++ rest) = .ok (.lbl l) →
      ∃ s' md ds', decap crc mgr ds ((encap crc es pdu fid pt label buf).buf.take n ++ rest)
          = ⟨.ok (.completed s' md), n, ds'⟩ ∧ md.label = l) ∧
    (peek ((encap crc es pdu fid pt label buf).buf.take n ++ rest) = .err .labelReuse ↔
      (checkLabelReUse es label).1 = .reuse) ∧
    (peek ((encap crc es pdu fid pt label buf).buf.take n ++ rest) = .err .labelReuse ∨
      peek ((encap crc es pdu fid pt label buf).buf.take n ++ rest)
        = .ok (.lbl (checkLabelReUse es label).1)) := by
  have hp := C19_peek_encap crc es pdu fid pt label buf rest (.completed n) henc
  have hd := C01_roundtrip_eq crc mgr es pdu fid pt label buf n ds s free rest want last' henc hpt
    hpt2 hs hcap hr
  simp only [EncStatus.pktLen] at hp
  rw [hp]
  by_cases hw : (checkLabelReUse es label).1 = .reuse
  · rw [if_pos hw]
    exact ⟨fun l h => (by cases h), ⟨fun _ => hw, fun _ => rfl⟩, Or.inl rfl⟩
  · rw [if_neg hw]
    refine ⟨fun l h => ?_, ⟨fun h => (by cases h), fun h => absurd h hw⟩, Or.inr rfl⟩
    simp only [Res.ok.injEq, PeekOk.lbl.injEq] at h
    subst h
    exact ⟨_, _, _, hd, resolve_carried hw hr⟩

/-- on the C01 instance: peek and decap both say `lab6` -/
example := (C19_agrees_decap crc0 simpleMgr Enc.new pdu5 1 0x0800 lab6 buf40 15 ds0 (sto 1 8)
  [sto 2 8] [1, 2, 3] lab6 (some lab6) (by decide +kernel) (by decide) (by decide) rfl (by decide)
  rfl).1 lab6 (by decide +kernel)
example : peek ((encap crc0 Enc.new pdu5 1 0x0800 lab6 buf40).buf.take 15 ++ [1, 2, 3]) = .ok (.lbl lab6) ∧
    (decap crc0 simpleMgr ds0 ((encap crc0 Enc.new pdu5 1 0x0800 lab6 buf40).buf.take 15 ++ [1, 2, 3])).res
      = .ok (.completed ⟨1, [10, 11, 12, 13, 14, 0xAA, 0xAA, 0xAA]⟩ ⟨5, 0x0800, lab6, []⟩) := by
  decide +kernel

/-- **Peek agrees with `decap` on a first fragment**: whenever `peek` returns a label for the first
fragment `encap` produced and `decap` accepts that packet (whatever the receiver state), the
metadata `decap` reports carry that label. -/
theorem C19_agrees_decap_first (crc : CrcFn) (mgr : MgrFn) (es : Enc) (pdu : Bytes) (fid pt : Nat)
    (label : Label) (buf : Bytes) (n : Nat) (fc : FragCtx) (ds : Dec) (rest : Bytes)
    (henc : (encap crc es pdu fid pt label buf).res = .ok (.fragmented n fc))
    (hpt : SECOND_RANGE_PTYPE ≤ pt) (hpt2 : pt < 65536) (hfid : fid < 256) (l : Label)
    (x : DecStatus)
    (hpeek : peek ((encap crc es pdu fid pt label buf).buf.take n ++ rest) = .ok (.lbl l))
    (hdec : (decap crc mgr ds ((encap crc es pdu fid pt label buf).buf.take n ++ rest)).res = .ok x) :
    ∃ md, x = .fragmented md ∧ md.label = l ∧ md.pt = pt := by
  have hp := C19_peek_encap crc es pdu fid pt label buf rest (.fragmented n fc) henc
  simp only [EncStatus.pktLen] at hp
  rw [hp] at hpeek
  have hc := encap_cases crc es pdu fid pt label buf
  dsimp only at hc
  rcases hc with ⟨_, ho⟩ | ⟨_, _, ho⟩ | ⟨hz, _, hf, ho⟩ | ⟨_, _, _, _, ho⟩ |
    ⟨_, _, _, _, _, ho⟩ | ⟨hz, _, _, hb, ht, hn, ho⟩
  all_goals rw [ho] at henc hdec
  all_goals simp only [Res.ok.injEq, reduceCtorEq, EncStatus.fragmented.injEq] at henc
  obtain ⟨rfl, -⟩ := henc
  have hwz := written_ne_zero (es := es) hz
  generalize (checkLabelReUse es label).1 = wl at *
  by_cases hw : wl = .reuse
  · rw [if_pos hw] at hpeek; cases hpeek
  rw [if_neg hw] at hpeek
  simp only [Res.ok.injEq, PeekOk.lbl.injEq] at hpeek
  subst hpeek
  have hkle : firstPayloadLen wl.len buf.length
      ≤ GSE_LEN_MAX - (FRAG_ID_LEN + TOTAL_LENGTH_LEN + PROTOCOL_LEN + wl.len) := Nat.min_le_right _ _
  generalize firstPayloadLen wl.len buf.length = k at *
  have hpl : (pdu.take k).length = k := by rw [List.length_take]; omega
  have hl6 := wl.len_le_six
  rw [firstPkt_of_len hpl] at hdec
  have hL := firstPkt_length wl fid (pdu.length + PROTOCOL_LEN + wl.len) pt (pdu.take k)
  rw [hpl] at hL
  change (decap crc mgr ds ((firstPkt wl fid (pdu.length + PROTOCOL_LEN + wl.len) pt (pdu.take k)
      ++ buf.drop (FIRST_FRAG_LEN + wl.len + k)).take (FIRST_FRAG_LEN + wl.len + k) ++ rest)).res
      = .ok x at hdec
  rw [List.take_left' hL, decap_first_pkt_eq crc mgr ds rest hwz hpt hpt2 hfid (by gse_omega)
    (by rw [hpl]; gse_omega)] at hdec
  split at hdec
  · cases hdec
  · rename_i cur last' hr
    have hcur := resolve_carried hw hr
    split at hdec
    · cases hdec
    · split at hdec
      · cases hdec
      · cases hdec
      · rename_i c st m1 hnf
        have hcc := Mem.newFrag_ctx hnf
        split at hdec
        · exact absurd hdec (giveBack_res_ne_ok _ _ _ _ _ _)
        · have := saveOut_res_ok hdec
          subst this
          exact ⟨_, rfl, by rw [hcc]; exact hcur, by rw [hcc]⟩

/-- the 3-byte-label first fragment of section 1: peek and decap both say `three 1 2 3` -/
example : peek ((encap crc0 Enc.new pdu9 7 0x0800 (.three 1 2 3) buf12).buf.take 12) = .ok (.lbl (.three 1 2 3)) ∧
    (decap crc0 simpleMgr ds0 ((encap crc0 Enc.new pdu9 7 0x0800 (.three 1 2 3) buf12).buf.take 12)).res
      = .ok (.fragmented ⟨0, 0x0800, .three 1 2 3, []⟩) := by decide +kernel

/-! ### 4. Packets of `encap_ext` -/

/-- **Start and complete packets of `encap_ext`** (well-formed extensions): the label sits at the
same offset as without extensions, and `peek` answers in the same way. -/
theorem C19_peek_encapExt (crc : CrcFn) (es : Enc) (pdu : Bytes) (fid pt : Nat) (label : Label)
    (buf rest : Bytes) (exts : List Ext) (st : EncStatus)
    (hwf : ∀ e ∈ exts, e.len = PROTOCOL_LEN + e.data.length)
    (henc : (encapExt crc es pdu fid pt label buf exts).res = .ok st) :
    peek ((encapExt crc es pdu fid pt label buf exts).buf.take st.pktLen ++ rest) =
      if (checkLabelReUse es label).1 = .reuse then .err .labelReuse
      else .ok (.lbl (checkLabelReUse es label).1) := by
  have hc := encapExt_cases crc es pdu fid pt label buf exts hwf
  dsimp only at hc
  rcases hc with ⟨_, ho⟩ | ⟨lastExt, hlast, ⟨_, ho⟩ | ⟨_, ⟨_, ho⟩ | ⟨_, ⟨_, ho⟩ |
    ⟨hz, ⟨hf, ho⟩ | ⟨_, _, ho⟩ | ⟨_, _, _, ho⟩ | ⟨_, _, _, hn, ho⟩⟩⟩⟩⟩
  all_goals rw [ho] at henc ⊢
  all_goals simp only [Res.ok.injEq, reduceCtorEq] at henc
  all_goals subst henc
  all_goals have hne : exts ≠ [] := by rintro rfl; cases hlast
  all_goals have hml := extMiddle_length pt (checkLabelReUse es label).1 hne hwf
  all_goals generalize (checkLabelReUse es label).1 = wl at *
  all_goals generalize hx : extLen pt exts = x at *
  · -- complete
    have hlen : (be16 (genHeader .complete wl.type (pdu.length + wl.len + PROTOCOL_LEN + x))
        ++ extMiddle pt wl exts ++ pdu).length
        = pdu.length + wl.len + PROTOCOL_LEN + x + FIXED_HEADER_LEN := by
      simp only [List.length_append, be16_length, hml, PROTOCOL_LEN, FIXED_HEADER_LEN]; omega
    simp only [EncStatus.pktLen]
    rw [List.take_left' hlen]
    have hshape : be16 (genHeader .complete wl.type (pdu.length + wl.len + PROTOCOL_LEN + x))
        ++ extMiddle pt wl exts ++ pdu ++ rest
        = be16 (genHeader .complete wl.type (pdu.length + wl.len + PROTOCOL_LEN + x))
          ++ be16 (extFirstId exts) ++ wl.bytes
          ++ (extChain exts ++ (if pt < MAX_MANDATORY_VAL_PTYPE then [] else be16 pt) ++ pdu ++ rest) := by
      simp only [extMiddle, List.append_assoc]
    rw [hshape, peek_complete_shape _ _ _ _ (be16_length _)]; rfl
  · -- first fragment
    generalize hk : firstPayloadLen (wl.len + x) buf.length = k at *
    have hpl : (pdu.take k).length = k := by rw [List.length_take]; omega
    have hlen : (be16 (genHeader .first wl.type
          (FRAG_ID_LEN + TOTAL_LENGTH_LEN + PROTOCOL_LEN + wl.len + x + k))
        ++ [u8 fid] ++ be16 (pdu.length + PROTOCOL_LEN + wl.len) ++ extMiddle pt wl exts
        ++ pdu.take k).length = FIRST_FRAG_LEN + wl.len + x + k := by
      simp only [List.length_append, be16_length, hml, hpl, List.length_cons, List.length_nil,
        PROTOCOL_LEN, FIRST_FRAG_LEN]; omega
    simp only [EncStatus.pktLen]
    rw [List.take_left' hlen]
    have hshape : be16 (genHeader .first wl.type
          (FRAG_ID_LEN + TOTAL_LENGTH_LEN + PROTOCOL_LEN + wl.len + x + k))
        ++ [u8 fid] ++ be16 (pdu.length + PROTOCOL_LEN + wl.len) ++ extMiddle pt wl exts
        ++ pdu.take k ++ rest
        = be16 (genHeader .first wl.type
            (FRAG_ID_LEN + TOTAL_LENGTH_LEN + PROTOCOL_LEN + wl.len + x + k))
          ++ ([u8 fid] ++ be16 (pdu.length + PROTOCOL_LEN + wl.len) ++ be16 (extFirstId exts))
          ++ wl.bytes
          ++ (extChain exts ++ (if pt < MAX_MANDATORY_VAL_PTYPE then [] else be16 pt)
              ++ pdu.take k ++ rest) := by
      simp only [extMiddle, List.append_assoc]
    rw [hshape, peek_first_shape _ _ _ _ (by simp)]; rfl

/-- a complete packet with one 2-byte optional extension (id 0x0201) and a 3-byte label -/
example : (extNew 0x0201 [0xAB, 0xCD]) = .ok ⟨0x0201, .data2, [0xAB, 0xCD]⟩ ∧
    (encapExt crc0 Enc.new pdu5 1 0x0800 (.three 1 2 3) buf40 [⟨0x0201, .data2, [0xAB, 0xCD]⟩]).res
      = .ok (.completed 16) ∧
    peek ((encapExt crc0 Enc.new pdu5 1 0x0800 (.three 1 2 3) buf40
      [⟨0x0201, .data2, [0xAB, 0xCD]⟩]).buf.take 16) = .ok (.lbl (.three 1 2 3)) := by
  decide +kernel

end Gse

#print axioms Gse.C19_peek_encap
#print axioms Gse.C19_peek_encap_kinds
#print axioms Gse.C19_peek_encapFrag
#print axioms Gse.C19_agrees_decap
#print axioms Gse.C19_agrees_decap_first
#print axioms Gse.C19_peek_encapExt
