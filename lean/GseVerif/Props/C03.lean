/-
Property C03 — "Reassembly delivers only length- and CRC-verified PDUs (no silent corruption)."

`decap` reports a completed PDU at an end fragment only if the payloads of the most recent accepted
first fragment of that fragment id and of all later accepted fragments with that id, concatenated in
arrival order, have exactly the length announced by that first fragment's total length (as natural
numbers, no modulo) and a CRC-32 — over total length, protocol type, label bytes, PDU — equal to the
end fragment's trailer; the bytes and metadata it reports are exactly that concatenation and the
first fragment's fields.  Hence loss or duplication of a payload-carrying fragment, truncation, and
any corruption burst of up to 32 bits confined to the CRC-protected bytes are detected.

Quantifiers: every CRC calculator (the default CRC for the burst part), every extension manager,
every byte buffer (well formed or not), every receiver state satisfying `Dec.Inv` — in particular
every state reachable from `new` by `provision_storage` / `new_pdu` / `reset_last_label` / `decap`
(`C05_inv_reachable`), any number of slots, fragment ids sharing a slot included.

Vocabulary (Lemmas/Reassembly.lean): `trainOf ds j` — the first fragment's fields and the payload
bytes accumulated for fragment id `j` in state `ds`; `dispatch buf` — the header fields when `decap`
reaches a per-kind function; `endPayload` / `endTrailer` / `interPayload` / `firstPayload` — the
payload windows and the trailer of the packet in `buf`; `trainStep` — the ghost step, a function of
the input bytes and the result of the call only.
-/
import GseVerif.Lemmas.Reassembly
import GseVerif.Lemmas.CrcBurst

namespace Gse
open Gen

/-! ### Fixtures: a 2-slot receiver and a first / intermediate / end train of a 20-byte PDU -/
namespace C03

def pdu20 : Bytes := [1, 2, 3, 4, 5, 6, 7, 8, 9, 10, 11, 12, 13, 14, 15, 16, 17, 18, 19, 20]
def lab : Label := .three 0xA1 0xA2 0xA3
/-- total length: PDU + protocol type + 3-byte label -/
def tl : Nat := 25
def crcOk : Nat := defaultCrc pdu20 0x0800 tl lab.bytes
/-- first fragment of id 1: 3-byte label, total length 25, protocol type 0x0800, payload bytes 1..8 -/
def pFirst : Bytes :=
  [0x90, 0x10, 0x01, 0x00, 0x19, 0x08, 0x00, 0xA1, 0xA2, 0xA3] ++ pdu20.take 8
/-- intermediate fragment of id 1: payload bytes 9..14 -/
def pInter : Bytes := [0x30, 0x07, 0x01] ++ (pdu20.drop 8).take 6
/-- end fragment of id 1: payload bytes 15..20 and the CRC-32 -/
def pEnd : Bytes := [0x70, 0x0B, 0x01] ++ pdu20.drop 14 ++ be32 crcOk
/-- the intermediate fragment with one payload bit flipped (byte 11: 0x0B → 0x0F) -/
def pInterBad : Bytes := [0x30, 0x07, 0x01, 9, 10, 0x0F, 12, 13, 14]
/-- a 32-byte buffer with ghost identity `i` -/
def sto (i : Nat) : Storage := ⟨i, List.replicate 32 0⟩
/-- 2 slots, PDU size 32, three free buffers -/
def r0 : Dec :=
  (Dec.new 2 32).run defaultCrc simpleMgr [.provision (sto 1), .provision (sto 2), .provision (sto 3)]
/-- … after the first fragment -/
def r1 : Dec := r0.step defaultCrc simpleMgr (.decap pFirst)
/-- … and the intermediate fragment -/
def r2 : Dec := r1.step defaultCrc simpleMgr (.decap pInter)
/-- … or the corrupted intermediate fragment instead -/
def r2bad : Dec := r1.step defaultCrc simpleMgr (.decap pInterBad)

theorem r0_inv : r0.Inv := Dec.inv_run _ _ (Dec.inv_new 2 32) _
theorem r1_inv : r1.Inv := Dec.inv_step _ _ r0_inv _
theorem r2_inv : r2.Inv := Dec.inv_step _ _ r1_inv _
theorem r2bad_inv : r2bad.Inv := Dec.inv_step _ _ r1_inv _

/-- the train of id 1 after first + intermediate -/
def t2 : Train := ⟨lab, 0x0800, tl, false, [], pdu20.take 14⟩

end C03
open C03

-- the fixture train is what the model does: accepted, accepted, delivered
example : (decap defaultCrc simpleMgr r0 pFirst).res = .ok (.fragmented ⟨0, 0x0800, lab, []⟩) ∧
    (decap defaultCrc simpleMgr r1 pInter).res = .ok (.fragmented ⟨0, 0x0800, lab, []⟩) ∧
    (decap defaultCrc simpleMgr r2 pEnd).res =
      .ok (.completed ⟨3, pdu20 ++ List.replicate 12 0⟩ ⟨20, 0x0800, lab, []⟩) := by decide +kernel
example : dispatch pFirst = some (16, .first, .three) ∧ dispatch pInter = some (7, .inter, .reuse) ∧
    dispatch pEnd = some (11, .end_, .reuse) ∧ get8 pEnd FIXED_HEADER_LEN = some 1 ∧
    endPayload pEnd 11 = pdu20.drop 14 ∧ endTrailer pEnd 11 = some crcOk ∧
    interPayload pInter 7 = (pdu20.drop 8).take 6 ∧
    firstPayload simpleMgr pFirst .three 16 = pdu20.take 8 := by decide +kernel
example : trainOf r1 1 = some ⟨lab, 0x0800, tl, false, [], pdu20.take 8⟩ ∧ trainOf r2 1 = some t2 ∧
    trainOf r2 3 = none ∧ trainOf r2 2 = none := by decide +kernel

/-! ### 1. What is delivered at an end fragment (one call) -/

/-- **Only verified PDUs are delivered.**  If `decap`, on an arbitrary buffer dispatched as an end
packet of fragment id `j`, answers `Ok(CompletedPkt(st, md))`, then a train `t` of id `j` was in
progress (its first fragment's label, protocol type, total length, re-use flag, extension headers,
and the payload accumulated since) and, with `P = t.payload ++ payload of this packet`:
* `|P| + 2 + (label bytes the first fragment carried) = t.totalLen` as NATURAL numbers,
* `crc(P, t.pt, t.totalLen, label bytes) =` the packet's trailer,
* the delivered bytes `st[.. md.pdu_len]` are `P`,
* `md` is `⟨|P|, t.pt, t.label, t.exts⟩`, the first fragment's fields,
* the train is closed. -/
theorem C03_delivers_only_verified (crc : CrcFn) (mgr : MgrFn) (ds : Dec) (buf : Bytes) (h : ds.Inv)
    {g j : Nat} {lt : LabelType} {st : Storage} {md : Meta}
    (hd : dispatch buf = some (g, .end_, lt)) (hj : get8 buf FIXED_HEADER_LEN = some j)
    (hc : (decap crc mgr ds buf).res = .ok (.completed st md)) :
    ∃ t c, trainOf ds j = some t ∧ endTrailer buf g = some c ∧
      (t.payload ++ endPayload buf g).length + PROTOCOL_LEN + t.labelLen = t.totalLen ∧
      crc (t.payload ++ endPayload buf g) t.pt t.totalLen t.crcLabel = c ∧
      st.data.take md.pduLen = t.payload ++ endPayload buf g ∧
      md = ⟨(t.payload ++ endPayload buf g).length, t.pt, t.label, t.exts⟩ ∧
      trainOf (decap crc mgr ds buf).st j = none := by
  rcases (train_end crc mgr ds buf h hd hj).1 with
    ⟨sto, md', t, c, hres, -, ht, hc', hlen, hcrc, hdata, hmd, hnone⟩ | ⟨hres, -⟩ | ⟨e, hres, -⟩
  · rw [hc] at hres
    obtain ⟨rfl, rfl⟩ := DecStatus.completed.inj (Res.ok.inj hres)
    exact ⟨t, c, ht, hc', hlen, hcrc, hdata, hmd, hnone⟩
  · rw [hc] at hres; cases hres
  · rw [hc] at hres; cases hres

example : ∃ t c, trainOf r2 1 = some t ∧ endTrailer pEnd 11 = some c ∧
    (t.payload ++ endPayload pEnd 11).length + PROTOCOL_LEN + t.labelLen = t.totalLen ∧
    defaultCrc (t.payload ++ endPayload pEnd 11) t.pt t.totalLen t.crcLabel = c ∧
    (⟨3, pdu20 ++ List.replicate 12 0⟩ : Storage).data.take (⟨20, 0x0800, lab, []⟩ : Meta).pduLen =
      t.payload ++ endPayload pEnd 11 ∧
    (⟨20, 0x0800, lab, []⟩ : Meta) = ⟨(t.payload ++ endPayload pEnd 11).length, t.pt, t.label, t.exts⟩ ∧
    trainOf (decap defaultCrc simpleMgr r2 pEnd).st 1 = none :=
  C03_delivers_only_verified defaultCrc simpleMgr r2 pEnd r2_inv (g := 11) (j := 1) (lt := .reuse)
    (by decide +kernel) (by decide +kernel) (by decide +kernel)

/-- `Ok(CompletedPkt)` is only ever answered to a complete packet or to an end packet: first and
intermediate fragments, padding and refused buffers never deliver. -/
theorem C03_completed_kind (crc : CrcFn) (mgr : MgrFn) (ds : Dec) (buf : Bytes) (h : ds.Inv)
    {st : Storage} {md : Meta} (hc : (decap crc mgr ds buf).res = .ok (.completed st md)) :
    ∃ g lt, dispatch buf = some (g, .complete, lt) ∨ dispatch buf = some (g, .end_, lt) := by
  have hi := (Dec.inv_iff ds).mp h
  match hd : dispatch buf with
  | some (g, .complete, lt) => exact ⟨g, lt, .inl rfl⟩
  | some (g, .end_, lt) => exact ⟨g, lt, .inr rfl⟩
  | some (g, .first, lt) =>
    exfalso
    obtain ⟨w, -, -, hl, hg4⟩ := dispatch_some hd
    rw [(decap_of_dispatch crc mgr ds hd).2.1 rfl] at hc
    by_cases hg : 1 ≤ g
    · obtain ⟨j, hj⟩ := dispatch_fragId hd hg
      rcases decapFirst_train mgr ds buf lt g j hi hl hg4 hj with
        ⟨md', _, _, _, _, hres, -⟩ | ⟨⟨e, hres⟩, -⟩ | ⟨⟨e, hres⟩, -⟩ <;>
        (rw [hc] at hres; cases hres)
    · unfold decapFirst at hc
      simp only [] at hc
      rw [if_pos (by gse_omega)] at hc
      cases hc
  | some (g, .inter, lt) =>
    exfalso
    obtain ⟨w, -, -, hl, hg4⟩ := dispatch_some hd
    rw [(decap_of_dispatch crc mgr ds hd).2.2.1 rfl] at hc
    by_cases hg : 1 ≤ g
    · obtain ⟨j, hj⟩ := dispatch_fragId hd hg
      rcases decapInter_train ds buf g j hi hl hj with
        ⟨md', _, hres, -⟩ | ⟨hres, -⟩ | ⟨e, hres, -⟩ <;> (rw [hc] at hres; cases hres)
    · unfold decapInter at hc
      simp only [] at hc
      rw [if_pos (by gse_omega)] at hc
      cases hc
  | none =>
    exfalso
    have hk : dispatchKind buf = none := by rw [dispatchKind_eq_map, hd]; rfl
    rcases (C07_dispatchKind_none_iff buf).mp hk with hlen | ⟨w, hw, hr | ⟨g, k, lt, hr, hlt⟩⟩
    · unfold decap at hc
      simp only [] at hc
      rw [if_pos hlen] at hc
      cases hc
    · have hlen : ¬ buf.length < FIXED_HEADER_LEN := by
        intro hh
        have : get16 buf 0 = none := by unfold get16; rw [slice_eq_none.mpr (by gse_omega)]
        rw [this] at hw; cases hw
      unfold decap at hc
      simp only [hw, hr] at hc
      rw [if_neg hlen] at hc
      cases hc
    · have hlen : ¬ buf.length < FIXED_HEADER_LEN := by
        intro hh
        have : get16 buf 0 = none := by unfold get16; rw [slice_eq_none.mpr (by gse_omega)]
        rw [this] at hw; cases hw
      unfold decap at hc
      simp only [hw, hr] at hc
      rw [if_neg hlen, if_pos hlt] at hc
      cases hc

example : ∃ g lt, dispatch pEnd = some (g, .complete, lt) ∨ dispatch pEnd = some (g, .end_, lt) :=
  C03_completed_kind defaultCrc simpleMgr r2 pEnd r2_inv
    (st := ⟨3, pdu20 ++ List.replicate 12 0⟩) (md := ⟨20, 0x0800, lab, []⟩) (by decide +kernel)

/-! ### 2. The history: the slot content is the concatenation of the accepted payloads -/

/-- the observable trace of a history of public operations: for every `decap` call, the input bytes
and the result -/
def Dec.trace (crc : CrcFn) (mgr : MgrFn) : Dec → List DecOp → List (Bytes × Res DecErr DecStatus)
  | _, [] => []
  | ds, .decap buf :: ops =>
    (buf, (decap crc mgr ds buf).res) :: Dec.trace crc mgr (ds.step crc mgr (.decap buf)) ops
  | ds, op :: ops => Dec.trace crc mgr (ds.step crc mgr op) ops

/-- The ghost: from the trace alone (inputs and results; `n` is the number of slots), the fields of
the most recent accepted first fragment of id `j` and the concatenation, in arrival order, of its
payload and of the payloads of all intermediate fragments of id `j` accepted since — `none` before
any first fragment, after the train was closed by an end fragment, refused, or displaced by a first
fragment of an id sharing the slot (`trainStep`, Lemmas/Reassembly.lean). -/
def accepted (mgr : MgrFn) (n j : Nat) (tr : List (Bytes × Res DecErr DecStatus))
    (init : Option Train) : Option Train :=
  tr.foldl (fun cur br => trainStep mgr n br.1 br.2 j cur) init

/-- `provision_storage`, `new_pdu`, `reset_last_label` do not touch the slot array -/
theorem C03_step_other (crc : CrcFn) (mgr : MgrFn) (ds : Dec) (op : DecOp)
    (hop : ∀ buf, op ≠ .decap buf) :
    (ds.step crc mgr op).mem.maxFragId = ds.mem.maxFragId ∧
      (ds.step crc mgr op).mem.frags = ds.mem.frags := by
  cases op with
  | provision s =>
    simp only [Dec.step, Mem.provision]
    split
    · exact ⟨rfl, rfl⟩
    · split <;> exact ⟨rfl, rfl⟩
  | newPdu =>
    simp only [Dec.step, Mem.newPdu]
    split <;> exact ⟨rfl, rfl⟩
  | reset => exact ⟨rfl, rfl⟩
  | decap buf => exact absurd rfl (hop buf)

example : (r2.step defaultCrc simpleMgr (.provision (sto 9))).mem.maxFragId = r2.mem.maxFragId ∧
    (r2.step defaultCrc simpleMgr (.provision (sto 9))).mem.frags = r2.mem.frags :=
  C03_step_other defaultCrc simpleMgr r2 (.provision (sto 9)) (by intro b hb; cases hb)

/-- **Refinement.**  After every history of public operations from any `Dec.Inv` state, the
reassembly in progress for every fragment id `j` — context fields and buffer prefix — is exactly
what the ghost computes from the trace: the fields of the most recent accepted first fragment of `j`
and the concatenation, in arrival order, of the payloads accepted for `j` since. -/
theorem C03_refines (crc : CrcFn) (mgr : MgrFn) (ds : Dec) (h : ds.Inv) (ops : List DecOp) (j : Nat) :
    trainOf (ds.run crc mgr ops) j =
      accepted mgr ds.mem.maxFragId j (ds.trace crc mgr ops) (trainOf ds j) := by
  induction ops generalizing ds with
  | nil => rfl
  | cons op ops ih =>
    have hinv := Dec.inv_step crc mgr h op
    have hrun : ds.run crc mgr (op :: ops) = (ds.step crc mgr op).run crc mgr ops := rfl
    rw [hrun, ih _ hinv]
    cases op with
    | decap buf =>
      have hcfg : (ds.step crc mgr (.decap buf)).mem.maxFragId = ds.mem.maxFragId :=
        decap_cfg crc mgr ds buf h
      have hstep : trainOf (ds.step crc mgr (.decap buf)) j = _ := train_step crc mgr ds buf h j
      rw [hcfg, hstep]
      rfl
    | provision s =>
      obtain ⟨hn, hfr⟩ := C03_step_other crc mgr ds (.provision s) (by intro b hb; cases hb)
      rw [hn, trainOf_congr hn hfr]; rfl
    | newPdu =>
      obtain ⟨hn, hfr⟩ := C03_step_other crc mgr ds .newPdu (by intro b hb; cases hb)
      rw [hn, trainOf_congr hn hfr]; rfl
    | reset =>
      obtain ⟨hn, hfr⟩ := C03_step_other crc mgr ds .reset (by intro b hb; cases hb)
      rw [hn, trainOf_congr hn hfr]; rfl

/-- a fresh receiver has no train -/
theorem C03_trainOf_new (n sz j : Nat) : trainOf (Dec.new n sz) j = none := by
  unfold trainOf ctxOf
  simp only [Dec.new, Mem.new, List.getElem?_replicate]
  split
  · rename_i c s hh
    split at hh <;> cases hh
  · rfl

/-- … from `new`: every reachable state -/
theorem C03_refines_new (crc : CrcFn) (mgr : MgrFn) (n sz : Nat) (ops : List DecOp) (j : Nat) :
    trainOf ((Dec.new n sz).run crc mgr ops) j =
      accepted mgr n j ((Dec.new n sz).trace crc mgr ops) none := by
  rw [C03_refines crc mgr _ (Dec.inv_new n sz) ops j, C03_trainOf_new]
  rfl

/-- the history of the fixture: three buffers provisioned, first fragment, intermediate fragment -/
def C03.hist : List DecOp :=
  [.provision (sto 1), .provision (sto 2), .provision (sto 3), .decap pFirst, .decap pInter]

example : trainOf (r0.run defaultCrc simpleMgr [.decap pFirst, .reset, .decap pInter]) 1 =
    accepted simpleMgr r0.mem.maxFragId 1
      (r0.trace defaultCrc simpleMgr [.decap pFirst, .reset, .decap pInter]) (trainOf r0 1) :=
  C03_refines defaultCrc simpleMgr r0 r0_inv _ 1

example : (Dec.new 2 32).trace defaultCrc simpleMgr C03.hist =
    [(pFirst, .ok (.fragmented ⟨0, 0x0800, lab, []⟩)), (pInter, .ok (.fragmented ⟨0, 0x0800, lab, []⟩))] ∧
    accepted simpleMgr 2 1 ((Dec.new 2 32).trace defaultCrc simpleMgr C03.hist) none = some t2 ∧
    trainOf ((Dec.new 2 32).run defaultCrc simpleMgr C03.hist) 1 = some t2 := by decide +kernel
-- the ghost follows refusals too: the corrupted train is refused at the end packet and closed
example : accepted simpleMgr 2 1 ((Dec.new 2 32).trace defaultCrc simpleMgr
      [.provision (sto 1), .decap pFirst, .decap pInterBad, .decap pEnd]) none = none ∧
    ((Dec.new 2 32).trace defaultCrc simpleMgr
      [.provision (sto 1), .decap pFirst, .decap pInterBad, .decap pEnd]).map (·.2) =
      [.ok (.fragmented ⟨0, 0x0800, lab, []⟩), .ok (.fragmented ⟨0, 0x0800, lab, []⟩), .err .crc] := by
  decide +kernel

/-- **Only verified PDUs are delivered, over histories.**  After any history `ops` of public
operations on a fresh receiver, if the next `decap`, on an arbitrary buffer dispatched as an end
packet of id `j`, answers `Ok(CompletedPkt(st, md))`, then the ghost has a train `t` for `j` — the
most recent accepted first fragment of `j` and the payloads accepted since, from the trace alone —
and with `P = t.payload ++ payload of this packet`: the length equation over ℕ, the CRC equation,
`st[.. md.pdu_len] = P`, and `md` = the first fragment's fields. -/
theorem C03_delivers_only_verified_history (crc : CrcFn) (mgr : MgrFn) (n sz : Nat)
    (ops : List DecOp) (buf : Bytes) {g j : Nat} {lt : LabelType} {st : Storage} {md : Meta}
    (hd : dispatch buf = some (g, .end_, lt)) (hj : get8 buf FIXED_HEADER_LEN = some j)
    (hc : (decap crc mgr ((Dec.new n sz).run crc mgr ops) buf).res = .ok (.completed st md)) :
    ∃ t c, accepted mgr n j ((Dec.new n sz).trace crc mgr ops) none = some t ∧
      endTrailer buf g = some c ∧
      (t.payload ++ endPayload buf g).length + PROTOCOL_LEN + t.labelLen = t.totalLen ∧
      crc (t.payload ++ endPayload buf g) t.pt t.totalLen t.crcLabel = c ∧
      st.data.take md.pduLen = t.payload ++ endPayload buf g ∧
      md = ⟨(t.payload ++ endPayload buf g).length, t.pt, t.label, t.exts⟩ := by
  have hinv := Dec.inv_run crc mgr (Dec.inv_new n sz) ops
  obtain ⟨t, c, ht, hc', hlen, hcrc, hdata, hmd, -⟩ :=
    C03_delivers_only_verified crc mgr _ buf hinv hd hj hc
  rw [C03_refines_new] at ht
  exact ⟨t, c, ht, hc', hlen, hcrc, hdata, hmd⟩

example : ∃ t c, accepted simpleMgr 2 1 ((Dec.new 2 32).trace defaultCrc simpleMgr C03.hist) none =
      some t ∧ endTrailer pEnd 11 = some c ∧
    (t.payload ++ endPayload pEnd 11).length + PROTOCOL_LEN + t.labelLen = t.totalLen ∧
    defaultCrc (t.payload ++ endPayload pEnd 11) t.pt t.totalLen t.crcLabel = c ∧
    (⟨3, pdu20 ++ List.replicate 12 0⟩ : Storage).data.take (⟨20, 0x0800, lab, []⟩ : Meta).pduLen =
      t.payload ++ endPayload pEnd 11 ∧
    (⟨20, 0x0800, lab, []⟩ : Meta) =
      ⟨(t.payload ++ endPayload pEnd 11).length, t.pt, t.label, t.exts⟩ :=
  C03_delivers_only_verified_history defaultCrc simpleMgr 2 32 C03.hist pEnd (g := 11) (j := 1)
    (lt := .reuse) (by decide +kernel) (by decide +kernel) (by decide +kernel)

/-! ### 3. Length faults (any CRC calculator) -/

/-- If the payloads accepted for `j`, followed by the end packet's payload, do not have exactly the
announced length — `|P'| + 2 + carried label length ≠ total length`, over ℕ — the end packet is
answered with an error (`ErrorTotalLength`, or an earlier refusal): nothing is delivered. -/
theorem C03_length_faults (crc : CrcFn) (mgr : MgrFn) (ds : Dec) (buf : Bytes) (h : ds.Inv)
    {g j : Nat} {lt : LabelType} {t : Train}
    (hd : dispatch buf = some (g, .end_, lt)) (hj : get8 buf FIXED_HEADER_LEN = some j)
    (ht : trainOf ds j = some t)
    (hne : (t.payload ++ endPayload buf g).length + PROTOCOL_LEN + t.labelLen ≠ t.totalLen) :
    (∃ e, (decap crc mgr ds buf).res = .err e) ∧
      ∀ st md, (decap crc mgr ds buf).res ≠ .ok (.completed st md) := by
  have key : ∃ e, (decap crc mgr ds buf).res = .err e := by
    rcases (train_end crc mgr ds buf h hd hj).1 with
      ⟨sto, md', t', c, hres, -, ht', -, hlen, -⟩ | ⟨hres, -⟩ | ⟨e, hres, -⟩
    · rw [ht] at ht'; cases ht'; exact absurd hlen hne
    · exact ⟨_, hres⟩
    · exact ⟨_, hres⟩
  obtain ⟨e, he⟩ := key
  exact ⟨⟨e, he⟩, fun st md hh => by rw [he] at hh; cases hh⟩

-- the end packet arrives right after the first fragment: 14 bytes instead of 20
example : (⟨lab, 0x0800, tl, false, [], pdu20.take 8⟩ : Train).payload ++ endPayload pEnd 11 =
    [1, 2, 3, 4, 5, 6, 7, 8, 15, 16, 17, 18, 19, 20] := by decide +kernel
example : (∃ e, (decap defaultCrc simpleMgr r1 pEnd).res = .err e) ∧
    ∀ st md, (decap defaultCrc simpleMgr r1 pEnd).res ≠ .ok (.completed st md) :=
  C03_length_faults defaultCrc simpleMgr r1 pEnd r1_inv (g := 11) (j := 1) (lt := .reuse)
    (t := ⟨lab, 0x0800, tl, false, [], pdu20.take 8⟩) (by decide +kernel) (by decide +kernel)
    (by decide +kernel) (by decide +kernel)

/-- … relative to a payload `P` of the announced length (what the sender's train carries): any
accepted payload `P'` of another length is refused. -/
theorem C03_length_faults_ref (crc : CrcFn) (mgr : MgrFn) (ds : Dec) (buf : Bytes) (h : ds.Inv)
    {g j : Nat} {lt : LabelType} {t : Train}
    (hd : dispatch buf = some (g, .end_, lt)) (hj : get8 buf FIXED_HEADER_LEN = some j)
    (ht : trainOf ds j = some t)
    (P : Bytes) (hP : P.length + PROTOCOL_LEN + t.labelLen = t.totalLen)
    (hne : (t.payload ++ endPayload buf g).length ≠ P.length) :
    (∃ e, (decap crc mgr ds buf).res = .err e) ∧
      ∀ st md, (decap crc mgr ds buf).res ≠ .ok (.completed st md) :=
  C03_length_faults crc mgr ds buf h hd hj ht (by omega)

example : (∃ e, (decap defaultCrc simpleMgr r1 pEnd).res = .err e) ∧
    ∀ st md, (decap defaultCrc simpleMgr r1 pEnd).res ≠ .ok (.completed st md) :=
  C03_length_faults_ref defaultCrc simpleMgr r1 pEnd r1_inv (g := 11) (j := 1) (lt := .reuse)
    (t := ⟨lab, 0x0800, tl, false, [], pdu20.take 8⟩) (by decide +kernel) (by decide +kernel)
    (by decide +kernel) pdu20 (by decide +kernel) (by decide +kernel)

/-- the three faults of the property: of a train whose payloads `pre ++ [p] ++ post` add up to the
announced length, the payload-carrying fragment `p` (non-empty) is dropped, duplicated, or truncated
to its first `k < |p|` bytes; what the receiver accepted is the concatenation of the rest -/
inductive LenFault (pre : List Bytes) (p : Bytes) (post : List Bytes) : Bytes → Prop
  | drop : LenFault pre p post (pre ++ post).flatten
  | dup : LenFault pre p post (pre ++ [p, p] ++ post).flatten
  | trunc (k : Nat) (hk : k < p.length) : LenFault pre p post (pre ++ [p.take k] ++ post).flatten

/-- **Loss, duplication, truncation are detected.**  Let the payloads `pre ++ [p] ++ post` (fragment
payloads in order; the last one is the end packet's) have the length announced by the first fragment.
If what the receiver has accepted for `j` plus the end packet's payload is that sequence with the
non-empty payload `p` dropped, duplicated or truncated, the end packet is answered with an error. -/
theorem C03_length_faults_train (crc : CrcFn) (mgr : MgrFn) (ds : Dec) (buf : Bytes) (h : ds.Inv)
    {g j : Nat} {lt : LabelType} {t : Train}
    (hd : dispatch buf = some (g, .end_, lt)) (hj : get8 buf FIXED_HEADER_LEN = some j)
    (ht : trainOf ds j = some t)
    (pre post : List Bytes) (p : Bytes) (hp : p ≠ [])
    (hP : (pre ++ [p] ++ post).flatten.length + PROTOCOL_LEN + t.labelLen = t.totalLen)
    (hf : LenFault pre p post (t.payload ++ endPayload buf g)) :
    (∃ e, (decap crc mgr ds buf).res = .err e) ∧
      ∀ st md, (decap crc mgr ds buf).res ≠ .ok (.completed st md) := by
  refine C03_length_faults_ref crc mgr ds buf h hd hj ht _ hP ?_
  have hpl : 0 < p.length := List.length_pos_iff.mpr hp
  generalize t.payload ++ endPayload buf g = P' at hf
  cases hf with
  | drop => simp only [List.flatten_append, List.length_append, List.flatten_cons,
      List.flatten_nil, List.length_nil]; omega
  | dup => simp only [List.flatten_append, List.length_append, List.flatten_cons,
      List.flatten_nil, List.length_nil]; omega
  | trunc k hk => simp only [List.flatten_append, List.length_append, List.flatten_cons,
      List.flatten_nil, List.length_nil, List.length_take]; omega

-- the intermediate fragment is lost: the end packet arrives on the train of the first fragment only
example : trainOf r1 1 = some ⟨lab, 0x0800, tl, false, [], pdu20.take 8⟩ ∧
    LenFault [pdu20.take 8] ((pdu20.drop 8).take 6) [pdu20.drop 14]
      (pdu20.take 8 ++ endPayload pEnd 11) ∧
    (decap defaultCrc simpleMgr r1 pEnd).res = .err .totalLength :=
  ⟨by decide +kernel, by
    have : pdu20.take 8 ++ endPayload pEnd 11 = ([pdu20.take 8] ++ [pdu20.drop 14]).flatten := by
      decide +kernel
    rw [this]; exact .drop, by decide +kernel⟩
example : (∃ e, (decap defaultCrc simpleMgr r1 pEnd).res = .err e) ∧
    ∀ st md, (decap defaultCrc simpleMgr r1 pEnd).res ≠ .ok (.completed st md) :=
  C03_length_faults_train defaultCrc simpleMgr r1 pEnd r1_inv (g := 11) (j := 1) (lt := .reuse)
    (t := ⟨lab, 0x0800, tl, false, [], pdu20.take 8⟩) (by decide +kernel) (by decide +kernel)
    (by decide +kernel) [pdu20.take 8] [pdu20.drop 14] ((pdu20.drop 8).take 6) (by decide)
    (by decide +kernel) (by
      have : (⟨lab, 0x0800, tl, false, [], pdu20.take 8⟩ : Train).payload ++ endPayload pEnd 11 =
          ([pdu20.take 8] ++ [pdu20.drop 14]).flatten := by decide +kernel
      rw [this]; exact .drop)
-- the intermediate fragment is duplicated: 26 bytes instead of 20
example : (decap defaultCrc simpleMgr (r2.step defaultCrc simpleMgr (.decap pInter)) pEnd).res =
    .err .totalLength := by decide +kernel
-- the end packet's payload is truncated by one byte (trailer recomputed or not: the length decides)
example : (decap defaultCrc simpleMgr r2 ([0x70, 0x0A, 0x01] ++ (pdu20.drop 14).take 5 ++ be32 crcOk)).res =
    .err .totalLength := by decide +kernel

/-- The first fragment is lost (or its train was refused, closed, or displaced): with no train in
progress for `j`, an end packet of `j` is answered with an error. -/
theorem C03_length_faults_no_first (crc : CrcFn) (mgr : MgrFn) (ds : Dec) (buf : Bytes) (h : ds.Inv)
    {g j : Nat} {lt : LabelType}
    (hd : dispatch buf = some (g, .end_, lt)) (hj : get8 buf FIXED_HEADER_LEN = some j)
    (ht : trainOf ds j = none) :
    (∃ e, (decap crc mgr ds buf).res = .err e) ∧
      ∀ st md, (decap crc mgr ds buf).res ≠ .ok (.completed st md) := by
  have key : ∃ e, (decap crc mgr ds buf).res = .err e := by
    rcases (train_end crc mgr ds buf h hd hj).1 with
      ⟨sto, md', t', c, hres, -, ht', -⟩ | ⟨hres, -⟩ | ⟨e, hres, -⟩
    · rw [ht] at ht'; cases ht'
    · exact ⟨_, hres⟩
    · exact ⟨_, hres⟩
  obtain ⟨e, he⟩ := key
  exact ⟨⟨e, he⟩, fun st md hh => by rw [he] at hh; cases hh⟩

-- the first fragment is lost: intermediate and end packets meet an empty slot
example : (decap defaultCrc simpleMgr r0 pInter).res = .err (.memory .undefinedId) ∧
    (decap defaultCrc simpleMgr r0 pEnd).res = .err (.memory .undefinedId) := by decide +kernel
example : (∃ e, (decap defaultCrc simpleMgr r0 pEnd).res = .err e) ∧
    ∀ st md, (decap defaultCrc simpleMgr r0 pEnd).res ≠ .ok (.completed st md) :=
  C03_length_faults_no_first defaultCrc simpleMgr r0 pEnd r0_inv (g := 11) (j := 1) (lt := .reuse)
    (by decide +kernel) (by decide +kernel) (by decide +kernel)

/-! ### 4. No wrap-around of the length comparison (repaired defect D13) -/

/-- A train whose accepted payload is exactly 65 536 bytes longer than announced is not delivered:
the comparison is over ℕ, not modulo 2^16. -/
theorem C03_no_wrap (crc : CrcFn) (mgr : MgrFn) (ds : Dec) (buf : Bytes) (h : ds.Inv)
    {g j : Nat} {lt : LabelType} {t : Train}
    (hd : dispatch buf = some (g, .end_, lt)) (hj : get8 buf FIXED_HEADER_LEN = some j)
    (ht : trainOf ds j = some t)
    (hw : (t.payload ++ endPayload buf g).length + PROTOCOL_LEN + t.labelLen = t.totalLen + 65536) :
    (∃ e, (decap crc mgr ds buf).res = .err e) ∧
      ∀ st md, (decap crc mgr ds buf).res ≠ .ok (.completed st md) :=
  C03_length_faults crc mgr ds buf h hd hj ht (by omega)

namespace C03
/-- 70 000 zero bytes (irreducible: the elaborator must never evaluate a 65 537-element list) -/
@[irreducible] def bigData : Bytes := List.replicate 70000 0
theorem bigData_length : bigData.length = 70000 := by
  unfold bigData; rw [List.length_replicate]
/-- a 1-slot receiver whose 70 000-byte buffer holds 65 535 accumulated bytes of a train that
announced total length 3 (a 1-byte PDU, broadcast label) -/
def rBig : Dec :=
  ⟨⟨[], [some (⟨.broadcast, 0x0800, 0, 3, 65535, false, []⟩, ⟨1, bigData⟩)], 1, 70000, 3⟩, none⟩
/-- end packet of id 0 with 2 payload bytes: 65 537 = 1 + 65 536 bytes in all -/
def pEndBig : Bytes := [0x70, 0x07, 0x00, 0xEE, 0xEF, 0, 0, 0, 0]

theorem rBig_inv : rBig.Inv := by
  refine ⟨⟨rfl, by decide⟩, ?_, ?_⟩
  · intro c s hm
    simp only [rBig, List.mem_singleton, Option.some.injEq, Prod.mk.injEq] at hm
    obtain ⟨rfl, rfl⟩ := hm
    rw [bigData_length]; decide
  · intro k c s hk
    match k with
    | 0 =>
      simp only [rBig, List.getElem?_cons_zero, Option.some.injEq, Prod.mk.injEq] at hk
      obtain ⟨rfl, rfl⟩ := hk
      rfl
    | k + 1 => simp only [rBig, List.getElem?_cons_succ, List.getElem?_nil, reduceCtorEq] at hk

theorem rBig_train : trainOf rBig 0 =
    some ⟨.broadcast, 0x0800, 3, false, [], bigData.take 65535⟩ := by
  simp only [trainOf, ctxOf, rBig, Nat.zero_mod, List.getElem?_cons_zero, if_true, Option.map_some,
    Train.ofCtx]

theorem endPayload_big : endPayload pEndBig 7 = [0xEE, 0xEF] := by decide +kernel

theorem big_len : (bigData.take 65535 ++ endPayload pEndBig 7).length + PROTOCOL_LEN +
    Label.broadcast.len = 3 + 65536 := by
  rw [List.length_append, List.length_take, bigData_length, endPayload_big]; rfl

theorem hw_mk (l : Label) (pt tl : Nat) (ex : List Ext) (pay q : Bytes)
    (h : (pay ++ q).length + PROTOCOL_LEN + l.len = tl + 65536) :
    ((⟨l, pt, tl, false, ex, pay⟩ : Train).payload ++ q).length + PROTOCOL_LEN +
      (⟨l, pt, tl, false, ex, pay⟩ : Train).labelLen =
    (⟨l, pt, tl, false, ex, pay⟩ : Train).totalLen + 65536 := by
  have h0 : (⟨l, pt, tl, false, ex, pay⟩ : Train).labelLen = l.len := rfl
  rw [h0]
  exact h

theorem big_hw :
    ((⟨.broadcast, 0x0800, 3, false, [], bigData.take 65535⟩ : Train).payload ++
        endPayload pEndBig 7).length + PROTOCOL_LEN +
      (⟨.broadcast, 0x0800, 3, false, [], bigData.take 65535⟩ : Train).labelLen =
    (⟨.broadcast, 0x0800, 3, false, [], bigData.take 65535⟩ : Train).totalLen + 65536 :=
  hw_mk .broadcast 0x0800 3 [] (bigData.take 65535) (endPayload pEndBig 7) big_len

end C03

example : (∃ e, (decap defaultCrc simpleMgr rBig pEndBig).res = .err e) ∧
    ∀ st md, (decap defaultCrc simpleMgr rBig pEndBig).res ≠ .ok (.completed st md) :=
  C03_no_wrap defaultCrc simpleMgr rBig pEndBig rBig_inv (g := 7) (j := 0) (lt := .reuse)
    (by decide +kernel) (by decide +kernel) rBig_train big_hw


/-! ### 5. Corruption bursts of up to 32 bits (default CRC) -/

/-- **Bursts are detected.**  Let `S = be16 tl ++ be16 pt ++ lb ++ P ++ be32 (defaultCrc P pt tl lb)`
be the CRC-protected byte string of a verifying train.  Suppose the receiver ended up, for fragment
id `j`, with the train `t'` and receives an end packet with payload `endPayload buf g` and trailer
`c'`, so that its protected string is
`S' = be16 t'.totalLen ++ be16 t'.pt ++ t'.crcLabel ++ P' ++ be32 c'` with
`P' = t'.payload ++ endPayload buf g`, of the same lengths.  If the bit strings of `S` and `S'` differ
exactly by a burst `zeros a ++ e ++ zeros b` with `e.length ≤ 32` containing a `true`, then the
recomputed CRC differs from the trailer and `decap` answers the end packet with an error: nothing is
delivered. -/
theorem C03_burst (mgr : MgrFn) (ds : Dec) (buf : Bytes) (h : ds.Inv)
    {g j : Nat} {lt : LabelType} {t' : Train} {c' : Nat}
    (hd : dispatch buf = some (g, .end_, lt)) (hj : get8 buf FIXED_HEADER_LEN = some j)
    (ht : trainOf ds j = some t') (hc' : endTrailer buf g = some c')
    (P lb : Bytes) (pt tl a b : Nat) (e : List Bool)
    (hlen : lb.length + P.length =
      t'.crcLabel.length + (t'.payload ++ endPayload buf g).length)
    (hx : xorBits
        ((be16 tl ++ be16 pt ++ lb ++ P ++ be32 (defaultCrc P pt tl lb)).flatMap byteBits)
        ((be16 t'.totalLen ++ be16 t'.pt ++ t'.crcLabel ++ (t'.payload ++ endPayload buf g) ++
          be32 c').flatMap byteBits)
      = zeros a ++ e ++ zeros b)
    (he : e.length ≤ 32) (htrue : true ∈ e) :
    defaultCrc (t'.payload ++ endPayload buf g) t'.pt t'.totalLen t'.crcLabel ≠ c' ∧
      (∃ err, (decap defaultCrc mgr ds buf).res = .err err) ∧
      ∀ st md, (decap defaultCrc mgr ds buf).res ≠ .ok (.completed st md) := by
  have hcrc := burst_default P (t'.payload ++ endPayload buf g) lb t'.crcLabel pt t'.pt tl t'.totalLen
    c' a b e (get32_lt hc') hlen hx he htrue
  have key : ∃ err, (decap defaultCrc mgr ds buf).res = .err err := by
    rcases (train_end defaultCrc mgr ds buf h hd hj).1 with
      ⟨sto, md', t, c, hres, -, ht', hc, -, hcrc', -⟩ | ⟨hres, -⟩ | ⟨e, hres, -⟩
    · rw [ht] at ht'; cases ht'
      rw [hc'] at hc; cases hc
      exact absurd hcrc' hcrc
    · exact ⟨_, hres⟩
    · exact ⟨_, hres⟩
  obtain ⟨err, herr⟩ := key
  exact ⟨hcrc, ⟨err, herr⟩, fun st md hh => by rw [herr] at hh; cases hh⟩

-- one payload bit flipped in the intermediate fragment (byte 11, bit 2): a 1-bit burst at bit
-- offset 8 * (2 + 2 + 3 + 10) + 5 = 141 of the 248-bit protected string
example : trainOf r2bad 1 = some ⟨lab, 0x0800, tl, false, [], [1, 2, 3, 4, 5, 6, 7, 8, 9, 10, 0x0F, 12, 13, 14]⟩ ∧
    (decap defaultCrc simpleMgr r2bad pEnd).res = .err .crc := by decide +kernel
example :
    defaultCrc ([1, 2, 3, 4, 5, 6, 7, 8, 9, 10, 0x0F, 12, 13, 14] ++ endPayload pEnd 11) 0x0800 tl
        lab.bytes ≠ crcOk ∧
      (∃ err, (decap defaultCrc simpleMgr r2bad pEnd).res = .err err) ∧
      ∀ st md, (decap defaultCrc simpleMgr r2bad pEnd).res ≠ .ok (.completed st md) :=
  C03_burst simpleMgr r2bad pEnd r2bad_inv (g := 11) (j := 1) (lt := .reuse)
    (t' := ⟨lab, 0x0800, tl, false, [], [1, 2, 3, 4, 5, 6, 7, 8, 9, 10, 0x0F, 12, 13, 14]⟩)
    (c' := crcOk) (by decide +kernel) (by decide +kernel) (by decide +kernel) (by decide +kernel)
    pdu20 lab.bytes 0x0800 tl 141 106 [true] (by decide +kernel) (by decide +kernel) (by decide)
    (by decide)

#print axioms C03_delivers_only_verified
#print axioms C03_completed_kind
#print axioms C03_step_other
#print axioms C03_refines
#print axioms C03_trainOf_new
#print axioms C03_refines_new
#print axioms C03_delivers_only_verified_history
#print axioms C03_length_faults
#print axioms C03_length_faults_ref
#print axioms C03_length_faults_train
#print axioms C03_length_faults_no_first
#print axioms C03_no_wrap
#print axioms C03_burst
#print axioms train_first
#print axioms train_inter
#print axioms train_end
#print axioms train_other
#print axioms train_step

end Gse
