/-
C12 — The default CRC is CRC-32/MPEG-2 over total length, protocol type, label, PDU.

For every input, `DefaultCrc::calculate_crc32` (model: `defaultCrc`) returns the CRC-32 with
polynomial 0x04C11DB7, initial value 0xFFFFFFFF, no reflection and no final XOR
(`Spec/CrcSpec.lean`, written bit-serially from the definition, not from the table) of the byte
string  total-length (2, big endian) ‖ protocol-type (2, big endian) ‖ label ‖ PDU.

The 256-entry table is only ever referenced through `Gen.CRC_TAB` / `crcTab`
(`Generated/CrcTab.lean`, extracted from `src/crc.rs` on every run); proofs: `Lemmas/Crc.lean`.
-/
import GseVerif.Lemmas.Crc

namespace Gse

/-- The model's table is the generated one, and it has the 256 entries the index needs. -/
theorem C12_table_size : crcTab.size = 256 ∧ Gen.CRC_TAB.length = 256 :=
  ⟨crcTab_size, by decide +kernel⟩

/-- Every generated entry is a `u32`, so reading it as `BitVec 32` loses nothing. -/
theorem C12_table_u32 : ∀ i < 256,
    ∃ v, Gen.CRC_TAB[i]? = some v ∧ v < 2 ^ 32 ∧ crcTab[i]? = some (BitVec.ofNat 32 v) := by
  decide +kernel

/-- `CRC_TAB[i]` is the register after eight zero-input bit steps started from `i <<< 24`. -/
theorem C12_table : ∀ i < 256,
    crcTab[i]? = some ((List.replicate 8 false).foldl bitStep (BitVec.ofNat 32 i <<< 24)) :=
  crcTab_spec

example : (255 : Nat) < 256 ∧ crcTab[255]? = some 0xb1f740b4#32 := by decide +kernel

/-- The index `((acc >> 24) ^ octet) as usize` is always inside the table: `CRC_TAB[..]` never
panics and the `getD` of the model never returns its default. -/
theorem C12_crcIndex_lt_size (acc : BitVec 32) (o : UInt8) : crcIndex acc o < crcTab.size :=
  crcIndex_lt_size acc o

/-- One table-driven octet step = eight bit-serial steps over the octet's bits, MSB first. -/
theorem C12_step (acc : BitVec 32) (o : UInt8) :
    crcStep acc o = (byteBits o).foldl bitStep acc :=
  crcStep_eq_bits acc o

/-- `crc32(data, acc)` = the bit-serial register run over all bits of `data`. -/
theorem C12_bytes (bs : Bytes) (acc : BitVec 32) :
    crc32 bs acc = crcBits acc (bs.flatMap byteBits) :=
  crc32_eq_bits bs acc

/-- `CRC_INIT` is the CRC-32/MPEG-2 initial value. -/
theorem C12_init : BitVec.ofNat 32 Gen.CRC_INIT = 0xFFFFFFFF#32 ∧ Gen.CRC_INIT < 2 ^ 32 := by
  decide

/-- The default calculator is CRC-32/MPEG-2 of `tl ‖ pt ‖ label ‖ pdu`. -/
theorem C12_default (pdu : Bytes) (pt tl : Nat) (label : Bytes) :
    defaultCrc pdu pt tl label = (crcMpeg2 (be16 tl ++ be16 pt ++ label ++ pdu)).toNat :=
  defaultCrc_eq_spec pdu pt tl label

/-- The result is a `u32`. -/
theorem C12_default_lt (pdu : Bytes) (pt tl : Nat) (label : Bytes) :
    defaultCrc pdu pt tl label < 2 ^ 32 :=
  defaultCrc_lt pdu pt tl label

/-! Concrete instances (kernel evaluation of the *model*, i.e. of the table-driven code). -/

/-- The table-driven `crc32` reproduces the published check value of CRC-32/MPEG-2. -/
example : (crc32 "123456789".toUTF8.toList (BitVec.ofNat 32 Gen.CRC_INIT)).toNat = 0x0376E6E7 := by
  decide +kernel

/-- The input of `test_calculate_crc32_003` in `src/crc.rs`. -/
example : defaultCrc [0xAB, 0xCD] 0x0A 0x64 [0xDF]
    = (crcMpeg2 [0x00, 0x64, 0x00, 0x0A, 0xDF, 0xAB, 0xCD]).toNat := by decide +kernel

example : defaultCrc [] 0 0 [] = (crcMpeg2 [0, 0, 0, 0]).toNat := by decide +kernel

end Gse

#print axioms Gse.C12_table_size
#print axioms Gse.C12_table_u32
#print axioms Gse.C12_table
#print axioms Gse.C12_crcIndex_lt_size
#print axioms Gse.C12_step
#print axioms Gse.C12_bytes
#print axioms Gse.C12_init
#print axioms Gse.C12_default
#print axioms Gse.C12_default_lt
