/-
Property C08, last sentence — "every decap call that ends in an error returns any buffer it took,
so rejected traffic can never exhaust the receiver" — stated about the FREE LIST itself.

`C08_error_returns` (Props/C08.lean) says that on an error the multiset `owned` (free list ++ slots)
plus what the error value carries is what was owned before; it does not tell a storage that went
back to the free list from one left in a slot.  Here:

* `C08_error_never_shrinks_free_list`: after a call that ended in an error the free list is at least
  as long as before, counting the storage that the error value itself hands to the caller
  (`StorageOverflow(s)` / `BufferTooSmall(s)` out of the give-back `provision_storage`);
* `C08_error_never_fills_a_slot`: after such a call every occupied slot held the very same context
  and storage before (an error never puts a storage INTO a slot);
* `C08_error_slots`: the sharpest form — the slot array is unchanged, or exactly one slot was
  emptied;
* `C08_rejected_traffic_never_exhausts`: along any sequence of `decap` calls that all end in an
  error the free list never gets shorter (counting what the error values handed out).

None of these needs `Dec.Inv` (nor `Mem.WF`): they hold for every state, every CRC calculator, every
extension manager and every buffer.  The one place where a storage could disappear, a refused
`save_frag`, is shown unreachable directly: the slot was emptied by the `new_frag` / `take_frag` of
the same call.
-/
import GseVerif.Props.C08

namespace Gse
open Gen DFix

/-! ### Vocabulary -/

/-- every occupied slot of `fr'` is the same slot of `fr`, with the same context and storage -/
def C08.SlotsSub (fr' fr : List (Option (Ctx × Storage))) : Prop :=
  ∀ (k : Nat) (c : Ctx) (s : Storage), fr'[k]? = some (some (c, s)) → fr[k]? = some (some (c, s))

theorem C08_slotsSub_refl (fr : List (Option (Ctx × Storage))) : C08.SlotsSub fr fr := fun _ _ _ h => h

theorem C08_slotsSub_set_none (fr : List (Option (Ctx × Storage))) (idx : Nat) :
    C08.SlotsSub (fr.set idx none) fr := by
  intro k c s h
  rw [List.getElem?_set] at h
  split at h
  · split at h <;> cases h
  · exact h

/-- the slot array is the old one, or the old one with one slot emptied -/
def C08.SlotsEmptied (fr' fr : List (Option (Ctx × Storage))) : Prop :=
  fr' = fr ∨ ∃ idx, fr' = fr.set idx none

theorem C08_slotsEmptied_sub {fr' fr : List (Option (Ctx × Storage))} (h : C08.SlotsEmptied fr' fr) :
    C08.SlotsSub fr' fr := by
  rcases h with rfl | ⟨idx, rfl⟩
  · exact C08_slotsSub_refl _
  · exact C08_slotsSub_set_none _ _

/-- what the three theorems need about an outcome `o` of a call on memory `m` -/
def C08.ErrSafe (m : Mem) (o : DecOut) : Prop :=
  ∀ e, o.res = .err e →
    m.storages.length ≤ o.st.mem.storages.length + (handedOut (.err e)).length ∧
    C08.SlotsEmptied o.st.mem.frags m.frags

theorem C08_errSafe_panic (m : Mem) (n : Nat) (st : Dec) : C08.ErrSafe m ⟨.panic, n, st⟩ := by
  intro e h; cases h

theorem C08_errSafe_ok (m : Mem) (x : DecStatus) (n : Nat) (st : Dec) : C08.ErrSafe m ⟨.ok x, n, st⟩ := by
  intro e h; cases h

theorem C08_errSafe_fail (ds : Dec) (m : Mem) (e : DecErr) (n : Nat) : C08.ErrSafe m (ds.fail m e n) := by
  intro e' _
  exact ⟨Nat.le_add_right _ _, .inl rfl⟩

theorem C08_errSafe_same (m : Mem) (e : DecErr) (n : Nat) (last : Option Label) :
    C08.ErrSafe m ⟨.err e, n, ⟨m, last⟩⟩ := by
  intro e' _
  exact ⟨Nat.le_add_right _ _, .inl rfl⟩

theorem C08_provision_cases (m : Mem) (s : Storage) :
    m.provision s = (.ok (), { m with storages := s :: m.storages }) ∨
    m.provision s = (.err (.storageOverflow s), m) ∨
    m.provision s = (.err (.bufferTooSmall s), m) := by
  unfold Mem.provision
  split
  · exact .inr (.inl rfl)
  split
  · exact .inr (.inr rfl)
  · exact .inl rfl

/-- the give-back: the storage goes on top of the free list, or into the error value -/
theorem C08_errSafe_giveBack {m m1 : Mem} (last : Option Label) (st : Storage) (e : DecErr) (n : Nat)
    (hl : m.storages.length ≤ m1.storages.length + 1) (hf : C08.SlotsEmptied m1.frags m.frags) :
    C08.ErrSafe m (giveBack m1 last st e n) := by
  unfold giveBack
  rcases C08_provision_cases m1 st with h | h | h <;> rw [h] <;> intro e' he <;> cases he
  · exact ⟨by simp only [List.length_cons]; omega, hf⟩
  · exact ⟨by simpa [handedOut] using hl, hf⟩
  · exact ⟨by simpa [handedOut] using hl, hf⟩

/-! ### The memory operations, without any invariant -/

theorem C08_newPdu_ok {m m1 : Mem} {st : Storage} (h : m.newPdu = (.ok st, m1)) :
    m.storages.length = m1.storages.length + 1 ∧ m1.frags = m.frags ∧
      m1.maxFragId = m.maxFragId := by
  unfold Mem.newPdu at h
  split at h
  · cases h
  · rename_i s rest hs
    cases h
    simp [hs]

theorem C08_newFrag_ok {m m1 : Mem} {c c' : Ctx} {st : Storage}
    (h : m.newFrag c = (.ok (c', st), m1)) :
    c' = c ∧ m.maxFragId ≠ 0 ∧ m1.maxFragId = m.maxFragId ∧
      m.storages.length ≤ m1.storages.length + 1 ∧
      m1.frags = m.frags.set (c.fragId % m.maxFragId) none ∧
      m1.frags[c.fragId % m.maxFragId]? = some none := by
  unfold Mem.newFrag at h
  split at h
  · cases h
  rename_i h0
  simp only [] at h
  split at h
  · cases h
  rename_i slot hslot
  have hlt : c.fragId % m.maxFragId < m.frags.length := by
    rcases Nat.lt_or_ge (c.fragId % m.maxFragId) m.frags.length with hl | hl
    · exact hl
    · rw [List.getElem?_eq_none hl] at hslot; cases hslot
  split at h
  · split at h
    · rename_i s m2 hnp
      cases h
      obtain ⟨hl, hf, hm⟩ := C08_newPdu_ok hnp
      refine ⟨rfl, h0, hm, by simpa using Nat.le_of_eq hl, hf, ?_⟩
      rw [hf]; simp only []; rw [List.getElem?_set_self hlt]
    · cases h
    · cases h
  · cases h
    refine ⟨rfl, h0, rfl, Nat.le_add_right _ _, rfl, ?_⟩
    simp only []; rw [List.getElem?_set_self hlt]

theorem C08_newFrag_err {m m1 : Mem} {c : Ctx} {e : MemErr} (h : m.newFrag c = (.err e, m1)) :
    m1.storages = m.storages ∧ C08.SlotsEmptied m1.frags m.frags := by
  unfold Mem.newFrag at h
  split at h
  · cases h; exact ⟨rfl, .inl rfl⟩
  simp only [] at h
  split at h
  · cases h
  split at h
  · split at h
    · cases h
    · rename_i e2 m2 hnp
      cases h
      obtain ⟨rfl, -⟩ := Mem.newPdu_err hnp
      exact ⟨rfl, .inr ⟨_, rfl⟩⟩
    · cases h
  · cases h

theorem C08_takeFrag_ok {m m1 : Mem} {fid : Nat} {c : Ctx} {st : Storage}
    (h : m.takeFrag fid = (.ok (c, st), m1)) :
    c.fragId = fid ∧ m.maxFragId ≠ 0 ∧ m1.maxFragId = m.maxFragId ∧ m1.storages = m.storages ∧
      m1.frags = m.frags.set (fid % m.maxFragId) none ∧
      m1.frags[fid % m.maxFragId]? = some none := by
  unfold Mem.takeFrag at h
  split at h
  · cases h
  rename_i h0
  simp only [] at h
  split at h
  · cases h
  · cases h
  rename_i c0 s0 hslot
  have hlt : fid % m.maxFragId < m.frags.length := by
    rcases Nat.lt_or_ge (fid % m.maxFragId) m.frags.length with hl | hl
    · exact hl
    · rw [List.getElem?_eq_none hl] at hslot; cases hslot
  split at h
  · rename_i hc
    cases h
    refine ⟨hc, h0, rfl, rfl, rfl, ?_⟩
    simp only []; rw [List.getElem?_set_self hlt]
  · cases h

theorem C08_takeFrag_err {m m1 : Mem} {fid : Nat} {e : MemErr}
    (h : m.takeFrag fid = (.err e, m1)) : m1 = m := by
  unfold Mem.takeFrag at h
  split at h
  · cases h; rfl
  simp only [] at h
  split at h
  · cases h
  · cases h; rfl
  split at h
  · cases h
  · cases h; rfl

/-- `save_frag` into a slot that is empty is never refused -/
theorem C08_saveFrag_free {m : Mem} (cs : Ctx × Storage) (h0 : m.maxFragId ≠ 0)
    (hs : m.frags[cs.1.fragId % m.maxFragId]? = some none) :
    ∃ m2, m.saveFrag cs = (.ok (), m2) := by
  unfold Mem.saveFrag
  rw [if_neg h0]
  simp only [hs]
  exact ⟨_, rfl⟩

/-! ### The four per-kind functions and `decap` -/

theorem C08_decapInter_errSafe (ds : Dec) (buf : Bytes) (pktLen gseLen : Nat) :
    C08.ErrSafe ds.mem (decapInter ds buf pktLen gseLen) := by
  unfold decapInter
  simp only []
  split
  · exact C08_errSafe_fail _ _ _ _
  split
  · exact C08_errSafe_panic _ _ _
  rename_i fid hfid
  split
  · exact C08_errSafe_panic _ _ _
  · cases C08_takeFrag_err ‹_›; exact C08_errSafe_same _ _ _ _
  rename_i ctx st m1 htk
  obtain ⟨hfid', h0, hmx, hsto, hfr, hnone⟩ := C08_takeFrag_ok htk
  have hl : ds.mem.storages.length ≤ m1.storages.length + 1 := by rw [hsto]; omega
  have hf : C08.SlotsEmptied m1.frags ds.mem.frags := .inr ⟨_, hfr⟩
  split
  · exact C08_errSafe_giveBack _ _ _ _ hl hf
  split
  · exact C08_errSafe_panic _ _ _
  split
  · exact C08_errSafe_giveBack _ _ _ _ hl hf
  split
  · exact C08_errSafe_panic _ _ _
  rename_i data _
  obtain ⟨m2, hsv⟩ := C08_saveFrag_free (m := m1)
    ({ ctx with pduLen := ctx.pduLen + (gseLen - FRAG_ID_LEN) }, { st with data := data })
    (hmx ▸ h0) (by simpa only [hmx, hfid'] using hnone)
  rw [hsv]
  exact C08_errSafe_ok _ _ _ _

theorem C08_decapEnd_errSafe (crc : CrcFn) (ds : Dec) (buf : Bytes) (pktLen gseLen : Nat) :
    C08.ErrSafe ds.mem (decapEnd crc ds buf pktLen gseLen) := by
  unfold decapEnd
  simp only []
  split
  · exact C08_errSafe_fail _ _ _ _
  split
  · exact C08_errSafe_panic _ _ _
  split
  · exact C08_errSafe_panic _ _ _
  · cases C08_takeFrag_err ‹_›; exact C08_errSafe_same _ _ _ _
  rename_i ctx st m1 htk
  obtain ⟨-, -, -, hsto, hfr, -⟩ := C08_takeFrag_ok htk
  have hl : ds.mem.storages.length ≤ m1.storages.length + 1 := by rw [hsto]; omega
  have hf : C08.SlotsEmptied m1.frags ds.mem.frags := .inr ⟨_, hfr⟩
  split
  · exact C08_errSafe_panic _ _ _
  split
  · exact C08_errSafe_giveBack _ _ _ _ hl hf
  split
  · generalize (if ctx.fromReuse = true then 0 else ctx.label.type.len) = fl
    generalize (if ctx.fromReuse = true then ([] : Bytes) else ctx.label.bytes) = cl
    split
    · exact C08_errSafe_giveBack _ _ _ _ hl hf
    split
    · exact C08_errSafe_panic _ _ _
    split
    · exact C08_errSafe_giveBack _ _ _ _ hl hf
    · exact C08_errSafe_ok _ _ _ _
  · exact C08_errSafe_panic _ _ _

theorem C08_decapComplete_errSafe (mgr : MgrFn) (ds : Dec) (buf : Bytes) (lt : LabelType)
    (pktLen gseLen : Nat) : C08.ErrSafe ds.mem (decapComplete mgr ds buf lt pktLen gseLen) := by
  unfold decapComplete
  simp only []
  split
  · exact C08_errSafe_fail _ _ _ _
  split
  · exact C08_errSafe_panic _ _ _
  split
  · exact C08_errSafe_panic _ _ _
  split
  · exact C08_errSafe_fail _ _ _ _
  split
  · exact C08_errSafe_panic _ _ _
  · exact C08_errSafe_fail _ _ _ _
  · exact C08_errSafe_fail _ _ _ _
  split
  · exact C08_errSafe_panic _ _ _
  · cases (Mem.newPdu_err ‹_›).1; exact C08_errSafe_fail _ _ _ _
  rename_i st m1 hnp
  obtain ⟨hlen, hfr, -⟩ := C08_newPdu_ok hnp
  have hl : ds.mem.storages.length ≤ m1.storages.length + 1 := Nat.le_of_eq hlen
  have hf : C08.SlotsEmptied m1.frags ds.mem.frags := .inl hfr
  split
  · exact C08_errSafe_giveBack _ _ _ _ hl hf
  split
  · exact C08_errSafe_panic _ _ _
  split
  · exact C08_errSafe_panic _ _ _
  split
  · exact C08_errSafe_giveBack _ _ _ _ hl hf
  · exact C08_errSafe_ok _ _ _ _

theorem C08_decapFirst_errSafe (mgr : MgrFn) (ds : Dec) (buf : Bytes) (lt : LabelType)
    (pktLen gseLen : Nat) : C08.ErrSafe ds.mem (decapFirst mgr ds buf lt pktLen gseLen) := by
  unfold decapFirst
  simp only []
  split
  · exact C08_errSafe_fail _ _ _ _
  split
  · split
    · exact C08_errSafe_panic _ _ _
    split
    · exact C08_errSafe_fail _ _ _ _
    split
    · exact C08_errSafe_fail _ _ _ _
    split
    · exact C08_errSafe_panic _ _ _
    · exact C08_errSafe_fail _ _ _ _
    · exact C08_errSafe_fail _ _ _ _
    split
    · exact C08_errSafe_panic _ _ _
    split
    · exact C08_errSafe_fail _ _ _ _
    split
    · exact C08_errSafe_panic _ _ _
    · rename_i e m1 hnf
      obtain ⟨hsto, hf⟩ := C08_newFrag_err hnf
      intro e' _
      exact ⟨by simp [Dec.fail, hsto], hf⟩
    rename_i ctx st m1 hnf
    obtain ⟨hc, h0, hmx, hl, hfr, hnone⟩ := C08_newFrag_ok hnf
    have hf : C08.SlotsEmptied m1.frags ds.mem.frags := .inr ⟨_, hfr⟩
    split
    · exact C08_errSafe_giveBack _ _ _ _ hl hf
    split
    · exact C08_errSafe_panic _ _ _
    rename_i data _
    obtain ⟨m2, hsv⟩ := C08_saveFrag_free (m := m1) (ctx, { st with data := data })
      (hmx ▸ h0) (by simp only [hmx, hc]; exact hnone)
    rw [hsv]
    exact C08_errSafe_ok _ _ _ _
  · exact C08_errSafe_panic _ _ _

theorem C08_decap_errSafe (crc : CrcFn) (mgr : MgrFn) (ds : Dec) (buf : Bytes) :
    C08.ErrSafe ds.mem (decap crc mgr ds buf) := by
  unfold decap
  simp only []
  split
  · exact C08_errSafe_fail _ _ _ _
  split
  · exact C08_errSafe_panic _ _ _
  split
  · exact C08_errSafe_panic _ _ _
  · exact C08_errSafe_panic _ _ _
  · exact C08_errSafe_ok _ _ _ _
  split
  · exact C08_errSafe_fail _ _ _ _
  split
  · exact C08_decapComplete_errSafe _ _ _ _ _ _
  · exact C08_decapFirst_errSafe _ _ _ _ _ _
  · exact C08_decapInter_errSafe _ _ _ _
  · exact C08_decapEnd_errSafe _ _ _ _ _

/-! ### The property -/

/-- A `decap` call that ends in an error never shrinks the free list: the number of free storages
afterwards, plus one if the error value itself hands a storage to the caller
(`ErrorMemory(StorageOverflow(s))` / `ErrorMemory(BufferTooSmall(s))` out of the give-back), is at
least the number before.  For EVERY state (no invariant needed), every CRC calculator, every
extension manager, every buffer. -/
theorem C08_error_never_shrinks_free_list (crc : CrcFn) (mgr : MgrFn) (ds : Dec) (buf : Bytes)
    (e : DecErr) (he : (decap crc mgr ds buf).res = .err e) :
    ds.mem.storages.length ≤
      (decap crc mgr ds buf).st.mem.storages.length + (handedOut (.err e)).length :=
  (C08_decap_errSafe crc mgr ds buf e he).1

-- the intermediate fragment of id 1 does not fit: the reassembly is abandoned and its buffer 3 comes
-- back ON TOP of the free list, which GROWS from [1] to [3, 1]
example : (decap zcrc simpleMgr d2 pInterBig).res = .err .sizePduBuffer ∧
    d2.mem.storages.map (·.id) = [1] ∧
    (decap zcrc simpleMgr d2 pInterBig).st.mem.storages.map (·.id) = [3, 1] := by decide
example : d2.mem.storages.length ≤
    (decap zcrc simpleMgr d2 pInterBig).st.mem.storages.length +
      (handedOut (.err .sizePduBuffer)).length :=
  C08_error_never_shrinks_free_list _ _ _ _ _ (by decide)

/-- the fixture `d2` with the free list filled up to its capacity (4): buffers 6, 5, 4, 1 -/
def C08.dFull : Dec :=
  d2.run zcrc simpleMgr [.provision (st8 4), .provision (st8 5), .provision (st8 6)]

-- the same refused fragment when the free list is full: the give-back `provision_storage` is refused,
-- the buffer 3 of the abandoned reassembly leaves in the error value; the free list keeps its 4
example : (decap zcrc simpleMgr C08.dFull pInterBig).res =
      .err (.memory (.storageOverflow ⟨3, [0x11, 0x12, 0x13, 0, 0, 0, 0, 0]⟩)) ∧
    C08.dFull.mem.storages.map (·.id) = [6, 5, 4, 1] ∧
    (decap zcrc simpleMgr C08.dFull pInterBig).st.mem.storages.map (·.id) = [6, 5, 4, 1] ∧
    handedOut (decap zcrc simpleMgr C08.dFull pInterBig).res = [3] := by decide

/-- … in particular an error that carries no storage leaves at least as many free storages -/
theorem C08_plain_error_keeps_free_list (crc : CrcFn) (mgr : MgrFn) (ds : Dec) (buf : Bytes)
    (e : DecErr) (he : (decap crc mgr ds buf).res = .err e)
    (hs : ∀ s, e ≠ .memory (.storageOverflow s) ∧ e ≠ .memory (.bufferTooSmall s)) :
    ds.mem.storages.length ≤ (decap crc mgr ds buf).st.mem.storages.length := by
  have := C08_error_never_shrinks_free_list crc mgr ds buf e he
  have hh : handedOut (.err e) = [] := by
    cases e <;> try rfl
    rename_i me
    cases me <;> first | rfl | exact absurd rfl (hs _).1 | exact absurd rfl (hs _).2
  simpa [hh] using this

example : d2.mem.storages.length ≤ (decap zcrc simpleMgr d2 pInterBig).st.mem.storages.length :=
  C08_plain_error_keeps_free_list _ _ _ _ .sizePduBuffer (by decide) (by intro s; simp)

/-- A `decap` call that ends in an error never puts a storage INTO a slot: every slot occupied
afterwards held the very same context and the very same storage before. -/
theorem C08_error_never_fills_a_slot (crc : CrcFn) (mgr : MgrFn) (ds : Dec) (buf : Bytes)
    (e : DecErr) (he : (decap crc mgr ds buf).res = .err e) :
    ∀ (k : Nat) (c : Ctx) (s : Storage),
      (decap crc mgr ds buf).st.mem.frags[k]? = some (some (c, s)) →
      ds.mem.frags[k]? = some (some (c, s)) :=
  C08_slotsEmptied_sub (C08_decap_errSafe crc mgr ds buf e he).2

/-- … sharper: on an error the slot array is untouched, or exactly one slot was emptied (the
abandoned reassembly: `take_frag` of an intermediate / end packet, or the slot a refused first
fragment was about to replace). -/
theorem C08_error_slots (crc : CrcFn) (mgr : MgrFn) (ds : Dec) (buf : Bytes)
    (e : DecErr) (he : (decap crc mgr ds buf).res = .err e) :
    (decap crc mgr ds buf).st.mem.frags = ds.mem.frags ∨
    ∃ idx, (decap crc mgr ds buf).st.mem.frags = ds.mem.frags.set idx none :=
  (C08_decap_errSafe crc mgr ds buf e he).2

-- slot 0 (id 2, buffer 2) is untouched, slot 1 (id 1, buffer 3) is emptied
example : (decap zcrc simpleMgr d2 pInterBig).st.mem.frags = d2.mem.frags.set 1 none ∧
    d2.mem.frags.map (·.map (fun cs => (cs.1.fragId, cs.2.id))) = [some (2, 2), some (1, 3)] ∧
    (decap zcrc simpleMgr d2 pInterBig).st.mem.frags.map (·.map (fun cs => (cs.1.fragId, cs.2.id))) =
      [some (2, 2), none] := by decide
example : ∀ (k : Nat) (c : Ctx) (s : Storage),
    (decap zcrc simpleMgr d2 pInterBig).st.mem.frags[k]? = some (some (c, s)) →
    d2.mem.frags[k]? = some (some (c, s)) :=
  C08_error_never_fills_a_slot _ _ _ _ .sizePduBuffer (by decide)

/-! ### Rejected traffic can never exhaust the receiver -/

/-- every call of the run of `decap` over `bufs` from `ds` ends in an error -/
def C08.AllErr (crc : CrcFn) (mgr : MgrFn) : Dec → List Bytes → Prop
  | _, [] => True
  | ds, b :: bs =>
    (∃ e, (decap crc mgr ds b).res = .err e) ∧ C08.AllErr crc mgr (decap crc mgr ds b).st bs

/-- Along any sequence of `decap` calls that all end in an error, the free list never gets shorter
than it was, counting the storages the error values handed to the caller. -/
theorem C08_rejected_traffic_never_exhausts (crc : CrcFn) (mgr : MgrFn) (ds : Dec)
    (bufs : List Bytes) (hall : C08.AllErr crc mgr ds bufs) :
    ds.mem.storages.length ≤
      (ds.run crc mgr (bufs.map .decap)).mem.storages.length +
        (ds.handedAll crc mgr (bufs.map .decap)).length := by
  induction bufs generalizing ds with
  | nil => simp [Dec.run, Dec.handedAll]
  | cons b bs ih =>
    obtain ⟨⟨e, he⟩, hrest⟩ := hall
    have h1 := C08_error_never_shrinks_free_list crc mgr ds b e he
    have h2 := ih (decap crc mgr ds b).st hrest
    simp only [List.map_cons, Dec.run, List.foldl_cons, Dec.handedAll, Dec.step, Dec.handed,
      List.length_append, he] at h2 ⊢
    omega

-- four rejected packets in a row on `d2`: the oversize intermediate fragment of id 1 (its buffer comes
-- back), an intermediate and an end fragment of the now unknown id 1, a truncated buffer
example : C08.AllErr zcrc simpleMgr d2 [pInterBig, pInter 1, pEnd 1, [0xE0]] ∧
    d2.mem.storages.length = 1 ∧
    (d2.run zcrc simpleMgr ([pInterBig, pInter 1, pEnd 1, [0xE0]].map .decap)).mem.storages.length = 2 ∧
    d2.handedAll zcrc simpleMgr ([pInterBig, pInter 1, pEnd 1, [0xE0]].map .decap) = [] := by
  refine ⟨⟨⟨.sizePduBuffer, by decide⟩, ⟨.memory .undefinedId, by decide⟩,
    ⟨.memory .undefinedId, by decide⟩, ⟨.sizeBuffer, by decide⟩, trivial⟩, ?_⟩
  decide

#print axioms C08_decap_errSafe
#print axioms C08_plain_error_keeps_free_list
#print axioms C08_error_never_fills_a_slot
#print axioms C08_error_slots
#print axioms C08_rejected_traffic_never_exhausts

end Gse

#print axioms Gse.C08_error_never_shrinks_free_list
