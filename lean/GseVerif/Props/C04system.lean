/-
Property C04, joint system — the fragmented analogue of `C04_delivery`.

`C04_delivery` (Props/C04.lean) says that a COMPLETE packet sent in a state of the joint system
satisfying `LabelSync` is delivered with the intended label.  `C02_roundtrip` / `C02_delivery`
(Props/C02.lean) say that a whole fragmented transfer over any schedule of output buffer sizes is
delivered, under two hypotheses relating the sender's and the receiver's label memories (`hes`:
the sender does not remember a broadcast label; `hsync`: if the sender substitutes the re-use marker
for `label`, the receiver remembers exactly `label`).  Here the two are composed: in a `LabelSync`
state (every state reachable from fresh endpoints, `C04_sync`) both hypotheses follow from the
invariant and from "the receiver has not forgotten" — the receiver's memory is not empty whenever
the sender substitutes (`hrem`); that what it remembers is then the right label is the invariant
(`LabelSync.sync`), that a remembered label is a 3- or 6-byte one is `LabelSync.txAddr` /
`LabelSync.rxAddr`, and the well-formedness of the receiver's memory is `LabelSync.inv`.

`want`, the label the receiver reports, is the label passed by the caller when that is not the
re-use marker, and the label the receiver remembers when `ReUse` was passed explicitly (`hwant`).

* `C04_frag_sync`       — `hes` and `hsync` of the C02 theorems from `LabelSync`;
* `C04_roundtrip_frag`  — conclusion of `C02_roundtrip`, verbatim, in the joint system;
* `C04_delivery_frag`   — conclusion of `C02_delivery`, verbatim, in the joint system;
* `C04_jtrace_fragOps`  — the joint machine running the `encap_frag` operations of a schedule
  (`fragOps`) is the receiver's `rxRun` over the packets of the schedule (`fragPackets`);
* `C04_delivery_frag_jrun` — the same delivery phrased on the joint machine: the trace of
  `.send … :: fragOps …` is `FragmentedPkt` (label `want`) for every call but the last and
  `CompletedPkt` with the PDU, its length, protocol type and `want` for the last one, and the
  final state again satisfies `LabelSync`.
-/
import GseVerif.Props.C04
import GseVerif.Props.C02

namespace Gse
open Gen

/-! Fixtures for the `example`s: fresh endpoints (2 slots, `max_pdu_size` 64), two free 64-byte
storages, and one complete packet for `C02.lab6` already sent and delivered — so that both sides
remember `lab6`, and the sender replaces it by the re-use marker in the first fragment of the
60-byte PDU `C02.pdu60` (20-byte first buffer: 13 PDU bytes go into the first fragment). -/
namespace C04sys
def sto64 (i : Nat) : Storage := ⟨i, List.replicate 64 0xAA⟩
def sysF : Sys :=
  jrun C02.crc0 simpleMgr ⟨Enc.new, Dec.new 2 64⟩
    [.provision (sto64 1), .provision (sto64 2), .send [1, 2] 0 0x0800 C02.lab6 C02.buf20]
/-- the context returned with the first fragment when the label is substituted -/
def ctx13 : FragCtx := ⟨1, 0xDEADBEEF, 13⟩
/-- the storage after the whole PDU has been reassembled in it -/
def sto64' : Storage := ⟨1, C02.pdu60 ++ List.replicate 4 0xAA⟩
def frag6 : Option (Res DecErr DecStatus) := some (.ok (.fragmented ⟨0, 0x0800, C02.lab6, []⟩))
end C04sys
open C04sys

/-- the fixture is reachable from fresh endpoints, hence satisfies the invariant -/
theorem C04_sysF_sync : LabelSync sysF := C04_sync C02.crc0 simpleMgr 2 64 _ (by decide)

/-! ### 1. The hypotheses of the C02 theorems from `LabelSync` -/

/-- **`hes` and `hsync` from the invariant.**  In a `LabelSync` state, if the receiver's label
memory is not empty whenever the sender is about to substitute the re-use marker for a label
passed in full (`hrem`), and `want` is the label passed, resp. — for `ReUse` passed explicitly —
the label the receiver remembers (`hwant`), then the label hypotheses of `C02_first`,
`C02_roundtrip`, `C02_delivery`, `C02_complete_case` hold: the sender does not remember a broadcast
label, a substituted label is exactly the one the receiver remembers, and a label resolved from the
receiver's memory is a 3- or 6-byte one. -/
theorem C04_frag_sync (sys : Sys) (h : LabelSync sys) (label want : Label)
    (hrem : (checkLabelReUse sys.es label).1 = .reuse → label ≠ .reuse → sys.ds.last ≠ none)
    (hwant : (label ≠ .reuse ∧ want = label) ∨ (label = .reuse ∧ sys.ds.last = some want)) :
    sys.es.last ≠ some .broadcast ∧
    ((label ≠ .reuse ∧ want = label ∧
        ((checkLabelReUse sys.es label).1 = .reuse → sys.ds.last = some label)) ∨
      (label = .reuse ∧ sys.ds.last = some want ∧ (want.type = .six ∨ want.type = .three))) := by
  refine ⟨fun hb => (by cases h.txAddr _ hb), ?_⟩
  rcases hwant with ⟨hne, rfl⟩ | ⟨rfl, hd⟩
  · refine .inl ⟨hne, rfl, fun hw => ?_⟩
    rcases h.sync _ (written_reuse_last hw hne) with h1 | h1
    · exact h1
    · exact absurd h1 (hrem hw hne)
  · refine .inr ⟨rfl, hd, ?_⟩
    have ha := h.rxAddr _ hd
    cases want <;> simp [Label.isAddr, Label.type] at ha ⊢

/-- substituted label, remembered by the receiver -/
example : (checkLabelReUse sysF.es C02.lab6).1 = .reuse ∧ sysF.ds.last = some C02.lab6 := by
  decide +kernel
example := C04_frag_sync sysF C04_sysF_sync C02.lab6 C02.lab6 (fun _ _ => by decide +kernel)
  (.inl ⟨by decide, rfl⟩)
/-- `ReUse` passed explicitly -/
example := C04_frag_sync sysF C04_sysF_sync .reuse C02.lab6 (fun _ h => absurd rfl h)
  (.inr ⟨rfl, by decide +kernel⟩)

/-! ### 2. Round trip and delivery of a fragmented PDU in the joint system -/

/-- **C04, fragmented round trip.**  State of the joint system satisfying `LabelSync`; `encap`
returned `Fragmented(n₀, ctx₀)`; the receiver's slot is free (with `s` on top of the free list) or
holds a stale context with storage `s`; `s` can hold the PDU; the receiver has not forgotten the
label the sender is about to re-use.  Then the conclusion of `C02_roundtrip` holds for the packets
of every schedule `sizes` of output buffer sizes, with `want` the label intended by the sender. -/
theorem C04_roundtrip_frag (crc : CrcFn) (mgr : MgrFn) (sys : Sys) (h : LabelSync sys)
    (pdu : Bytes) (fid pt : Nat) (label : Label) (buf₀ : Bytes) (n₀ : Nat) (ctx₀ : FragCtx)
    (s : Storage) (want : Label) (sizes : List Nat)
    (henc : (encap crc sys.es pdu fid pt label buf₀).res = .ok (.fragmented n₀ ctx₀))
    (hpt : SECOND_RANGE_PTYPE ≤ pt) (hpt2 : pt < 65536) (hfid : fid < 256)
    (hc32 : ctx₀.crc < 2 ^ 32) (h0 : sys.ds.mem.maxFragId ≠ 0)
    (hslot : (sys.ds.mem.frags[fid % sys.ds.mem.maxFragId]? = some none ∧
        sys.ds.mem.storages.head? = some s) ∨
      (∃ c0, sys.ds.mem.frags[fid % sys.ds.mem.maxFragId]? = some (some (c0, s))))
    (hcap : pdu.length ≤ s.data.length)
    (hrem : (checkLabelReUse sys.es label).1 = .reuse → label ≠ .reuse → sys.ds.last ≠ none)
    (hwant : (label ≠ .reuse ∧ want = label) ∨ (label = .reuse ∧ sys.ds.last = some want)) :
    let first := (encap crc sys.es pdu fid pt label buf₀).buf.take n₀
    let pkts := (fragPackets pdu ctx₀ sizes).1
    let lens := fragLens pdu ctx₀ sizes
    let R := rxRun crc mgr sys.ds (first :: pkts)
    let frag : Nat → Res DecErr DecStatus × Nat := fun n => (.ok (.fragmented ⟨0, pt, want, []⟩), n)
    (first :: pkts).map List.length = n₀ :: lens ∧
    R.1.map Prod.snd = n₀ :: lens ∧
    R.2.last = (if label = .broadcast then none else some want) ∧
    (∀ c, (fragPackets pdu ctx₀ sizes).2 = some c → R.1 = (n₀ :: lens).map frag) ∧
    ((fragPackets pdu ctx₀ sizes).2 = none →
      ∃ init nLast st, lens = init ++ [nLast] ∧
        R.1 = (n₀ :: init).map frag ++ [(.ok (.completed st ⟨pdu.length, pt, want, []⟩), nLast)] ∧
        st.id = s.id ∧ st.data.take pdu.length = pdu ∧
        R.2.mem.frags[fid % sys.ds.mem.maxFragId]? = some none) :=
  C02_roundtrip crc mgr sys.es pdu fid pt label buf₀ n₀ ctx₀ sys.ds s want sizes henc hpt hpt2 hfid
    hc32 h.inv.1 h0 hslot hcap (C04_frag_sync sys h label want hrem hwant).1
    (C04_frag_sync sys h label want hrem hwant).2

/-- the fixture: the label is substituted in the first fragment (13 PDU bytes instead of 7) -/
example : (encap C02.crc0 sysF.es C02.pdu60 1 0x0800 C02.lab6 C02.buf20).res
    = .ok (.fragmented 20 ctx13) := by decide +kernel
/-- the hypotheses of `C04_roundtrip_frag` on that instance, schedule 2 (refused), 15, 9, 13, 100 -/
example :=
  C04_roundtrip_frag C02.crc0 simpleMgr sysF C04_sysF_sync C02.pdu60 1 0x0800 C02.lab6 C02.buf20 20 ctx13
    (sto64 1) C02.lab6 C02.sched (by decide +kernel) (by decide) (by decide) (by decide) (by decide)
    (by decide +kernel) (.inl (by decide +kernel)) (by decide) (fun _ _ => by decide +kernel)
    (.inl ⟨by decide, rfl⟩)

/-- **C04, delivery of a fragmented PDU.**  The same with the progress hypothesis of
`C02_delivery` (`remaining / 10 + 2` buffers of 13 bytes or more are offered): the receiver reports
`FragmentedPkt` with protocol type and the label intended by the sender for every packet but the
last, then exactly one `CompletedPkt` with the original bytes, length, protocol type and that label,
each call consuming the reported length — the conclusion of `C02_delivery`. -/
theorem C04_delivery_frag (crc : CrcFn) (mgr : MgrFn) (sys : Sys) (h : LabelSync sys)
    (pdu : Bytes) (fid pt : Nat) (label : Label) (buf₀ : Bytes) (n₀ : Nat) (ctx₀ : FragCtx)
    (s : Storage) (want : Label) (sizes : List Nat)
    (henc : (encap crc sys.es pdu fid pt label buf₀).res = .ok (.fragmented n₀ ctx₀))
    (hpt : SECOND_RANGE_PTYPE ≤ pt) (hpt2 : pt < 65536) (hfid : fid < 256)
    (hc32 : ctx₀.crc < 2 ^ 32) (h0 : sys.ds.mem.maxFragId ≠ 0)
    (hslot : (sys.ds.mem.frags[fid % sys.ds.mem.maxFragId]? = some none ∧
        sys.ds.mem.storages.head? = some s) ∨
      (∃ c0, sys.ds.mem.frags[fid % sys.ds.mem.maxFragId]? = some (some (c0, s))))
    (hcap : pdu.length ≤ s.data.length)
    (hrem : (checkLabelReUse sys.es label).1 = .reuse → label ≠ .reuse → sys.ds.last ≠ none)
    (hwant : (label ≠ .reuse ∧ want = label) ∨ (label = .reuse ∧ sys.ds.last = some want))
    (hcnt : (pdu.length - ctx₀.pos) / 10 + 2 ≤ sizes.countP (fun sz => decide (13 ≤ sz))) :
    ∃ init nLast st, fragLens pdu ctx₀ sizes = init ++ [nLast] ∧
      (rxRun crc mgr sys.ds ((encap crc sys.es pdu fid pt label buf₀).buf.take n₀
          :: (fragPackets pdu ctx₀ sizes).1)).1
        = (n₀ :: init).map (fun n => (.ok (.fragmented ⟨0, pt, want, []⟩), n))
          ++ [(.ok (.completed st ⟨pdu.length, pt, want, []⟩), nLast)] ∧
      st.id = s.id ∧ st.data.take pdu.length = pdu :=
  C02_delivery crc mgr sys.es pdu fid pt label buf₀ n₀ ctx₀ sys.ds s want sizes henc hpt hpt2 hfid
    hc32 h.inv.1 h0 hslot hcap (C04_frag_sync sys h label want hrem hwant).1
    (C04_frag_sync sys h label want hrem hwant).2 hcnt

/-- 47 bytes remain after the first fragment: 47 / 10 + 2 = 6 buffers of 13 bytes or more, with
refused (2, 3) and small (5, 9) buffers in between -/
example :=
  C04_delivery_frag C02.crc0 simpleMgr sysF C04_sysF_sync C02.pdu60 1 0x0800 C02.lab6 C02.buf20 20 ctx13
    (sto64 1) C02.lab6 [13, 2, 13, 5, 13, 3, 13, 9, 13, 13]
    (by decide +kernel) (by decide) (by decide) (by decide) (by decide)
    (by decide +kernel) (.inl (by decide +kernel)) (by decide) (fun _ _ => by decide +kernel)
    (.inl ⟨by decide, rfl⟩) (by decide)
/-- … with `ReUse` passed explicitly: delivered with the label the receiver remembers -/
example :=
  C04_delivery_frag C02.crc0 simpleMgr sysF C04_sysF_sync C02.pdu60 1 0x0800 .reuse C02.buf20 20 ctx13
    (sto64 1) C02.lab6 [13, 2, 13, 5, 13, 3, 13, 9, 13, 13]
    (by decide +kernel) (by decide) (by decide) (by decide) (by decide)
    (by decide +kernel) (.inl (by decide +kernel)) (by decide) (fun _ h => absurd rfl h)
    (.inr ⟨rfl, by decide +kernel⟩) (by decide)

/-- `hrem` cannot be dropped: after a reset of the receiver's label memory alone the invariant
still holds, the sender still substitutes, and the first fragment is refused (`NoLabelSaved`) —
never attributed to another label (`C04_forgotten_refused`) -/
example :
    let sysR := jrun C02.crc0 simpleMgr sysF [.resetRx]
    (checkLabelReUse sysR.es C02.lab6).1 = .reuse ∧ sysR.ds.last = none ∧
    jtrace C02.crc0 simpleMgr sysR [.send C02.pdu60 1 0x0800 C02.lab6 C02.buf20]
      = [some (.err .noLabelSaved)] := by decide +kernel

/-! ### 3. The same on the joint machine -/

/-- The `encap_frag` operations of a schedule of output buffer sizes, as operations of the joint
machine: zero-filled buffers of the given sizes, the context threaded from call to call exactly as
`fragSends` / `fragPackets` thread it; sizes whose buffer `encap_frag` refuses are skipped (the call
sends nothing and leaves the context to the caller); the run stops at the end packet. -/
def fragOps (pdu : Bytes) (ctx : FragCtx) : List Nat → List JOp
  | [] => []
  | sz :: rest =>
    match encapFrag pdu ctx (List.replicate sz 0) with
    | (.ok (.completed _), _) => [.frag pdu ctx (List.replicate sz 0)]
    | (.ok (.fragmented _ ctx'), _) =>
      .frag pdu ctx (List.replicate sz 0) :: fragOps pdu ctx' rest
    | _ => fragOps pdu ctx rest

/-- every operation of `fragOps` is an `encap_frag` call, hence well formed -/
theorem C04_fragOps_wf (pdu : Bytes) (sizes : List Nat) :
    ∀ ctx : FragCtx, ∀ op ∈ fragOps pdu ctx sizes, op.WF := by
  induction sizes with
  | nil => intro ctx op hop; cases hop
  | cons sz rest ih =>
    intro ctx op hop
    rcases hE : encapFrag pdu ctx (List.replicate sz 0) with ⟨(st | e | _), b⟩
    · cases st with
      | completed n =>
        simp only [fragOps, hE, List.mem_singleton] at hop
        subst hop; trivial
      | fragmented n ctx' =>
        simp only [fragOps, hE, List.mem_cons] at hop
        rcases hop with rfl | hop
        · trivial
        · exact ih ctx' op hop
    · simp only [fragOps, hE] at hop; exact ih ctx op hop
    · simp only [fragOps, hE] at hop; exact ih ctx op hop

/-- **The joint machine on `fragOps` is `rxRun` on `fragPackets`**: the trace is the list of the
receiver's results for the packets of the schedule, the receiver ends in `rxRun`'s final state, and
the sender's state is untouched (`encap_frag` does not involve the label memory). -/
theorem C04_jtrace_fragOps (crc : CrcFn) (mgr : MgrFn) (pdu : Bytes) (sizes : List Nat) :
    ∀ (ctx : FragCtx) (sys : Sys),
      jtrace crc mgr sys (fragOps pdu ctx sizes)
        = (rxRun crc mgr sys.ds (fragPackets pdu ctx sizes).1).1.map (fun r => some r.1) ∧
      jrun crc mgr sys (fragOps pdu ctx sizes)
        = ⟨sys.es, (rxRun crc mgr sys.ds (fragPackets pdu ctx sizes).1).2⟩ := by
  induction sizes with
  | nil => intro ctx sys; exact ⟨rfl, rfl⟩
  | cons sz rest ih =>
    intro ctx sys
    rcases hE : encapFrag pdu ctx (List.replicate sz 0) with ⟨(st | e | _), b⟩
    · cases st with
      | completed n =>
        rw [(fragPackets_cons_completed rest hE).1]
        simp only [fragOps, hE, jtrace, jrun, List.foldl_cons, List.foldl_nil, jstep, feed_ok,
          EncStatus.wireLen, rxRun, List.map_cons, List.map_nil, and_self]
      | fragmented n ctx' =>
        rw [(fragPackets_cons_fragmented rest hE).1]
        have hj : jstep crc mgr sys (.frag pdu ctx (List.replicate sz 0))
            = (⟨sys.es, (decap crc mgr sys.ds (b.take n)).st⟩,
               some (decap crc mgr sys.ds (b.take n)).res) := by
          simp only [jstep, hE, feed_ok, EncStatus.wireLen]
        obtain ⟨h1, h2⟩ := ih ctx' ⟨sys.es, (decap crc mgr sys.ds (b.take n)).st⟩
        simp only [fragOps, hE]
        constructor
        · show (jstep crc mgr sys _).2 :: jtrace crc mgr (jstep crc mgr sys _).1 _ = _
          rw [hj, h1]
          simp only [rxRun, List.map_cons]
        · show jrun crc mgr (jstep crc mgr sys _).1 _ = _
          rw [hj, h2]
          simp only [rxRun]
    · rw [(fragPackets_cons_skip rest (by rw [hE]; simp)).1]
      simp only [fragOps, hE]; exact ih ctx sys
    · rw [(fragPackets_cons_skip rest (by rw [hE]; simp)).1]
      simp only [fragOps, hE]; exact ih ctx sys

/-- the operations of the fixture's schedule: the 2-byte buffer is skipped -/
example : fragOps C02.pdu60 ctx13 C02.sched
    = [.frag C02.pdu60 ctx13 (List.replicate 15 0),
       .frag C02.pdu60 ⟨1, 0xDEADBEEF, 25⟩ (List.replicate 9 0),
       .frag C02.pdu60 ⟨1, 0xDEADBEEF, 31⟩ (List.replicate 13 0),
       .frag C02.pdu60 ⟨1, 0xDEADBEEF, 41⟩ (List.replicate 100 0)] := by decide +kernel

/-- **C04, delivery of a fragmented PDU, on the joint machine.**  In a `LabelSync` state, under the
hypotheses of `C04_delivery_frag`: running `encap` and then the `encap_frag` calls of the schedule
on the joint machine, the receiver's results are `FragmentedPkt` with protocol type and the label
intended by the sender for the first fragment and the `k` intermediate ones, and `CompletedPkt` —
storage `s` starting with exactly the PDU; PDU length, protocol type, that label, no extensions —
for the last call (so the last element of the trace is that `CompletedPkt`); every call fed the
receiver (no `none` in the trace); and the invariant holds again afterwards. -/
theorem C04_delivery_frag_jrun (crc : CrcFn) (mgr : MgrFn) (sys : Sys) (h : LabelSync sys)
    (pdu : Bytes) (fid pt : Nat) (label : Label) (buf₀ : Bytes) (n₀ : Nat) (ctx₀ : FragCtx)
    (s : Storage) (want : Label) (sizes : List Nat)
    (henc : (encap crc sys.es pdu fid pt label buf₀).res = .ok (.fragmented n₀ ctx₀))
    (hpt : SECOND_RANGE_PTYPE ≤ pt) (hpt2 : pt < 65536) (hfid : fid < 256)
    (hc32 : ctx₀.crc < 2 ^ 32) (h0 : sys.ds.mem.maxFragId ≠ 0)
    (hslot : (sys.ds.mem.frags[fid % sys.ds.mem.maxFragId]? = some none ∧
        sys.ds.mem.storages.head? = some s) ∨
      (∃ c0, sys.ds.mem.frags[fid % sys.ds.mem.maxFragId]? = some (some (c0, s))))
    (hcap : pdu.length ≤ s.data.length)
    (hrem : (checkLabelReUse sys.es label).1 = .reuse → label ≠ .reuse → sys.ds.last ≠ none)
    (hwant : (label ≠ .reuse ∧ want = label) ∨ (label = .reuse ∧ sys.ds.last = some want))
    (hcnt : (pdu.length - ctx₀.pos) / 10 + 2 ≤ sizes.countP (fun sz => decide (13 ≤ sz))) :
    ∃ k st, (fragLens pdu ctx₀ sizes).length = k + 1 ∧
      jtrace crc mgr sys (.send pdu fid pt label buf₀ :: fragOps pdu ctx₀ sizes)
        = List.replicate (k + 1) (some (.ok (.fragmented ⟨0, pt, want, []⟩)))
          ++ [some (.ok (.completed st ⟨pdu.length, pt, want, []⟩))] ∧
      (jtrace crc mgr sys (.send pdu fid pt label buf₀ :: fragOps pdu ctx₀ sizes)).getLast?
        = some (some (.ok (.completed st ⟨pdu.length, pt, want, []⟩))) ∧
      st.id = s.id ∧ st.data.take pdu.length = pdu ∧
      LabelSync (jrun crc mgr sys (.send pdu fid pt label buf₀ :: fragOps pdu ctx₀ sizes)) := by
  obtain ⟨init, nLast, st, h1, h2, h3, h4⟩ :=
    C04_delivery_frag crc mgr sys h pdu fid pt label buf₀ n₀ ctx₀ s want sizes henc hpt hpt2 hfid
      hc32 h0 hslot hcap hrem hwant hcnt
  have htr : jtrace crc mgr sys (.send pdu fid pt label buf₀ :: fragOps pdu ctx₀ sizes)
      = (rxRun crc mgr sys.ds ((encap crc sys.es pdu fid pt label buf₀).buf.take n₀
          :: (fragPackets pdu ctx₀ sizes).1)).1.map (fun r => some r.1) := by
    simp only [jtrace, jstep, henc, feed_ok, EncStatus.wireLen, rxRun, List.map_cons,
      (C04_jtrace_fragOps crc mgr pdu sizes ctx₀ _).1]
  have hrep : jtrace crc mgr sys (.send pdu fid pt label buf₀ :: fragOps pdu ctx₀ sizes)
      = List.replicate (init.length + 1) (some (.ok (.fragmented ⟨0, pt, want, []⟩)))
        ++ [some (.ok (.completed st ⟨pdu.length, pt, want, []⟩))] := by
    rw [htr, h2, List.map_append, List.map_map]
    have hc : ((fun r : Res DecErr DecStatus × Nat => some r.1) ∘
        fun n : Nat => ((.ok (.fragmented ⟨0, pt, want, []⟩) : Res DecErr DecStatus), n))
        = fun _ => some (.ok (.fragmented ⟨0, pt, want, []⟩)) := rfl
    rw [hc, List.map_const']; rfl
  refine ⟨init.length, st, by rw [h1]; simp, hrep, by rw [hrep]; simp, h3, h4, ?_⟩
  refine h.run crc mgr _ (fun op hop => ?_)
  rcases List.mem_cons.mp hop with rfl | hop
  · trivial
  · exact C04_fragOps_wf pdu sizes ctx₀ op hop

/-- the fixture evaluated on the joint machine: first fragment (label substituted), the 2-byte
buffer is skipped, three intermediate fragments, the end fragment; the PDU is delivered in storage 1
(the remaining 4 bytes untouched) with the label `lab6` the packets never carried -/
example :
    jtrace C02.crc0 simpleMgr sysF
      (.send C02.pdu60 1 0x0800 C02.lab6 C02.buf20 :: fragOps C02.pdu60 ctx13 C02.sched)
      = [frag6, frag6, frag6, frag6, some (.ok (.completed sto64' ⟨60, 0x0800, C02.lab6, []⟩))] := by
  decide +kernel
/-- the hypotheses of `C04_delivery_frag_jrun` on an instance with refused and small buffers -/
example :=
  C04_delivery_frag_jrun C02.crc0 simpleMgr sysF C04_sysF_sync C02.pdu60 1 0x0800 C02.lab6 C02.buf20 20
    ctx13 (sto64 1) C02.lab6 [13, 2, 13, 5, 13, 3, 13, 9, 13, 13]
    (by decide +kernel) (by decide) (by decide) (by decide) (by decide)
    (by decide +kernel) (.inl (by decide +kernel)) (by decide) (fun _ _ => by decide +kernel)
    (.inl ⟨by decide, rfl⟩) (by decide)

end Gse

#print axioms Gse.C04_sysF_sync
#print axioms Gse.C04_frag_sync
#print axioms Gse.C04_roundtrip_frag
#print axioms Gse.C04_fragOps_wf
#print axioms Gse.C04_jtrace_fragOps
#print axioms Gse.C04_delivery_frag_jrun
#print axioms Gse.C04_delivery_frag
