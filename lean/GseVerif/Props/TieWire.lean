/-
Translator tie, wire-level shapes (label lengths, header codes, extension lengths): the hand-written model agrees with every shape `tools/gen_lean.py`
recognised in the source on this run (`Generated/Facts.lean`).  A fact that was not recognised is `none` and
its theorem is vacuous (that behaviour is then tied by the correspondence check only); a recognised shape
whose content differs from the model breaks the corresponding theorem.  The tie is split by subject so that a
property is only tied to the facts its theorems rest on.
-/
import GseVerif.Generated.Facts
import GseVerif.Model.Memory

namespace Gse
open Gen

theorem Tie_label_len (f) (h : labelLenFact = some f) :
    f = ((Label.six 0 0 0 0 0 0).len, (Label.three 0 0 0).len, Label.broadcast.len, Label.reuse.len) := by
  unfold labelLenFact at h; cases h <;> rfl

theorem Tie_labelType_len (f) (h : labelTypeLenFact = some f) :
    f = (LabelType.six.len, LabelType.three.len, LabelType.broadcast.len, LabelType.reuse.len) := by
  unfold labelTypeLenFact at h; cases h <;> rfl

theorem Tie_header_kind (f) (h : headerKindFact = some f) :
    f = (startEndBits .complete, startEndBits .first, startEndBits .inter, startEndBits .end_) := by
  unfold headerKindFact at h; cases h <;> rfl

theorem Tie_header_labelType (f) (h : headerLabelTypeFact = some f) :
    f = (labelTypeBits .six, labelTypeBits .three, labelTypeBits .broadcast, labelTypeBits .reuse) := by
  unfold headerLabelTypeFact at h; cases h <;> rfl

theorem Tie_ext_len (f) (h : extLenFact = some f) (id : Nat) (d : Bytes) :
    (⟨id, .data2, d⟩ : Ext).len = f.1 + PROTOCOL_LEN ∧ (⟨id, .data4, d⟩ : Ext).len = f.2.1 + PROTOCOL_LEN ∧
    (⟨id, .data6, d⟩ : Ext).len = f.2.2.1 + PROTOCOL_LEN ∧ (⟨id, .data8, d⟩ : Ext).len = f.2.2.2.1 + PROTOCOL_LEN ∧
    (⟨id, .noData, d⟩ : Ext).len = f.2.2.2.2 + PROTOCOL_LEN := by
  unfold extLenFact at h; cases h <;> simp [Ext.len]

end Gse

#print axioms Gse.Tie_label_len
#print axioms Gse.Tie_labelType_len
#print axioms Gse.Tie_header_kind
#print axioms Gse.Tie_header_labelType
#print axioms Gse.Tie_ext_len
