/-
Property C05 — "decap is total on arbitrary bytes: no panic, bounded and progressing consumption".

For every byte buffer and every decapsulator state reachable through the public API
(`new` / `provision_storage` / `new_pdu` / `reset_last_label` / `decap` on anything), `decap`
returns `Ok` or `Err` without panicking, the consumed length it reports never exceeds the buffer
length and is at least `min(FIXED_HEADER_LEN, buffer length)`, so a frame walker always terminates.
The label / fragment-id peek function `get_label_or_frag_id` is likewise total.

Quantifiers: all byte strings `buf`, every CRC calculator `crc : CrcFn`, every mandatory-extension
manager `mgr : MgrFn` (any function, any sizes), every state satisfying `Dec.Inv`
(Lemmas/DecapInv.lean), which holds in every reachable state (`C05_inv_reachable`): any number of
slots including 0, any storage sizes, any saved contexts (same / aliasing / other ids), any
remembered label.

The model (Model/Decap.lean) turns every Rust panic site — slice index out of range, `unwrap`,
`unreachable!`, `todo!`, `usize` underflow — into `Res.panic`; `C05_total` says none is reachable.
-/
import GseVerif.Lemmas.DecapInv

namespace Gse
open Gen DFix

/-! ### 1. The invariant holds in every reachable state

`Dec.Inv ds`: the memory is well formed (`Mem.WF`: one slot per configured fragment id, free list
within its capacity), every saved context's accumulated length fits its storage, and slot `k` only
holds contexts whose fragment id is `≡ k` modulo the number of slots. -/

theorem C05_inv_new (n sz : Nat) : (⟨Mem.new n sz, none⟩ : Dec).Inv := Dec.inv_new n sz

theorem C05_inv_provision (ds : Dec) (s : Storage) (h : ds.Inv) :
    (⟨(ds.mem.provision s).2, ds.last⟩ : Dec).Inv := Dec.inv_step zcrc simpleMgr h (.provision s)

theorem C05_inv_newPdu (ds : Dec) (h : ds.Inv) : (⟨ds.mem.newPdu.2, ds.last⟩ : Dec).Inv :=
  Dec.inv_step zcrc simpleMgr h .newPdu

theorem C05_inv_reset (ds : Dec) (h : ds.Inv) : (⟨ds.mem, none⟩ : Dec).Inv :=
  Dec.inv_step zcrc simpleMgr h .reset

theorem C05_inv_decap (crc : CrcFn) (mgr : MgrFn) (ds : Dec) (buf : Bytes) (h : ds.Inv) :
    (decap crc mgr ds buf).st.Inv := Dec.inv_step crc mgr h (.decap buf)

/-- every public operation preserves the invariant -/
theorem C05_inv_step (crc : CrcFn) (mgr : MgrFn) (ds : Dec) (op : DecOp) (h : ds.Inv) :
    (ds.step crc mgr op).Inv := Dec.inv_step crc mgr h op

/-- the invariant holds after every history of public operations on a fresh decapsulator -/
theorem C05_inv_reachable (crc : CrcFn) (mgr : MgrFn) (n sz : Nat) (ops : List DecOp) :
    ((Dec.new n sz).run crc mgr ops).Inv := Dec.inv_run crc mgr (Dec.inv_new n sz) ops

/-- the fixture `d2` (2 slots, contexts open on ids 1 and 2, one free buffer) is reachable -/
theorem C05_d2_inv : d2.Inv :=
  C05_inv_reachable zcrc simpleMgr 2 8
    [.provision (st8 1), .provision (st8 2), .provision (st8 3), .decap (pFirst 1),
     .decap (pFirst 2)]

example : d2.mem.frags.map (Option.map (fun cs => (cs.1.fragId, cs.1.pduLen, cs.2.id))) =
    [some (2, 3, 2), some (1, 3, 3)] ∧ d2.mem.storages = [st8 1] := by decide
example : (decap zcrc simpleMgr d2 (pInter 1)).st.Inv := C05_inv_decap _ _ _ _ C05_d2_inv
-- the invariant is needed: a context longer than its storage makes `&mut pdu[pdu_len..]` panic
example : (decap zcrc simpleMgr
    ⟨{ d0.mem with frags := [none, some (⟨.broadcast, 0x0800, 1, 7, 9, false, []⟩, st8 7)] }, none⟩
    (pInter 1)).res = .panic := by decide

/-! ### 2. The extension-header walker -/

/-- `(pt & H_LEN_MASK) >> 8` is `pt / 256` on the extension range, so the `try_into::<u8>()` cannot
fail and `h_len = 0` is exactly the mandatory range -/
theorem C05_hlen_shift (pt : Nat) (h : pt < SECOND_RANGE_PTYPE) :
    (pt &&& H_LEN_MASK) >>> 8 = pt / 256 := hlen_eq_div pt h

example : (0x0345 &&& H_LEN_MASK) >>> 8 = 3 := by decide

/-- `Extension::new` cannot fail inside the walker: a mandatory id takes any data … -/
theorem C05_walk_extNew_mandatory (pt : Nat) (d : Bytes) (h : pt < MAX_MANDATORY_VAL_PTYPE) :
    extNew pt d = .ok ⟨pt, .mandatory, d⟩ := extNew_mand pt d h

example : extNew 0x81 [1, 2, 3] = .ok ⟨0x81, .mandatory, [1, 2, 3]⟩ :=
  C05_walk_extNew_mandatory _ _ (by decide)

/-- … and an optional id is given exactly the number of bytes the H-LEN table prescribes -/
theorem C05_walk_extNew_optional (pt sz : Nat) (d : Bytes) (h1 : pt < SECOND_RANGE_PTYPE)
    (hs : hlenDataSize (pt / 256) = some sz) (hd : d.length = sz) : ∃ e, extNew pt d = .ok e :=
  extNew_opt pt sz d h1 hs hd

example : ∃ e, extNew 0x0345 [1, 2, 3, 4] = .ok e :=
  C05_walk_extNew_optional _ 4 _ (by decide) (by decide) (by decide)

/-- The loop with `fuel` iterations left, at offset `off`: if `pdu.length - off < fuel` the fuel is
not exhausted and no panic site is reached (each continuing iteration advances `off` by at least
`PROTOCOL_LEN` and keeps it `≤ pdu.length`); a successful walk reports a length inside the PDU. -/
theorem C05_walk_fuel (mgr : MgrFn) (pdu : Bytes) (fuel pt off : Nat) (acc : List Ext)
    (h1 : off ≤ pdu.length) (h2 : pdu.length < fuel + off) :
    walkLoop mgr pdu fuel pt off acc ≠ .panic ∧
      ∀ w, walkLoop mgr pdu fuel pt off acc = .ok w → w.len ≤ pdu.length :=
  walkLoop_spec mgr pdu fuel pt off acc h1 h2

/-- `iterate_over_extension_header` never panics, for any manager and any bytes -/
theorem C05_walk_total (mgr : MgrFn) (pdu : Bytes) (pt : Nat) : walkExt mgr pdu pt ≠ .panic :=
  (walkExt_spec mgr pdu pt).1

-- a manager declaring a 300-byte non-final extension, on a 3-byte PDU
example : walkExt (fun _ => .nonFinal 300) [1, 2, 3] 0x0081 ≠ .panic := C05_walk_total _ _ _
example : walkExt (fun _ => .nonFinal 300) [1, 2, 3] 0x0081 = .err .bufferTooSmall := by decide

/-- … and the length it reports is inside the PDU -/
theorem C05_walk_len (mgr : MgrFn) (pdu : Bytes) (pt : Nat) (w : WalkOk)
    (h : walkExt mgr pdu pt = .ok w) : w.len ≤ pdu.length := (walkExt_spec mgr pdu pt).2 w h

-- optional extension 0x0201 (2 data bytes) then protocol type 0x0800
example : walkExt simpleMgr [0xAA, 0xBB, 0x08, 0x00, 0x99] 0x0201 =
    .ok ⟨[⟨0x0201, .data2, [0xAA, 0xBB]⟩], 0x0800, 4⟩ := by decide

/-! ### 3. `decap` never panics -/

theorem C05_total (crc : CrcFn) (mgr : MgrFn) (ds : Dec) (buf : Bytes) (h : ds.Inv) :
    (decap crc mgr ds buf).res ≠ .panic := by
  obtain ⟨_, hg, -⟩ := decap_good crc mgr ds buf ((Dec.inv_iff ds).mp h)
  exact hg.noPanic

example : (decap zcrc simpleMgr d2 (pInter 3)).res ≠ .panic := C05_total _ _ _ _ C05_d2_inv
example : (decap zcrc simpleMgr d2 (pInter 3)).res = .err (.memory .undefinedId) := by decide

/-- in every reachable state, on every buffer -/
theorem C05_total_reachable (crc : CrcFn) (mgr : MgrFn) (n sz : Nat) (ops : List DecOp)
    (buf : Bytes) : (decap crc mgr ((Dec.new n sz).run crc mgr ops) buf).res ≠ .panic :=
  C05_total crc mgr _ buf (C05_inv_reachable crc mgr n sz ops)

-- zero slots, no storage, a truncated first fragment
example : (decap zcrc simpleMgr (Dec.new 0 8) [0xA0, 0x08, 1, 0]).res ≠ .panic :=
  C05_total_reachable zcrc simpleMgr 0 8 [] _

/-! ### 4. Consumption is bounded and progresses -/

theorem C05_consumed_le (crc : CrcFn) (mgr : MgrFn) (ds : Dec) (buf : Bytes) (h : ds.Inv) :
    (decap crc mgr ds buf).consumed ≤ buf.length := by
  obtain ⟨pktLen, hg, hle, -⟩ := decap_good crc mgr ds buf ((Dec.inv_iff ds).mp h)
  rcases hg.consumed with hc | hc <;> omega

example : (decap zcrc simpleMgr d2 (pInter 1 ++ pPad)).consumed = 4 ∧
    (pInter 1 ++ pPad).length = 7 := by decide

/-- the consumed length is at least `min(FIXED_HEADER_LEN, buf.length)` (`FIXED_HEADER_LEN = 2`) -/
theorem C05_progress (crc : CrcFn) (mgr : MgrFn) (ds : Dec) (buf : Bytes) (h : ds.Inv) :
    min FIXED_HEADER_LEN buf.length ≤ (decap crc mgr ds buf).consumed := by
  obtain ⟨pktLen, hg, hle, hmin⟩ := decap_good crc mgr ds buf ((Dec.inv_iff ds).mp h)
  rcases hg.consumed with hc | hc
  · rw [hc]; exact Nat.min_le_right _ _
  · rw [hc]; exact hmin

example : (decap zcrc simpleMgr d2 [0x30]).consumed = 1 := by decide

/-- on a non-empty buffer something is consumed -/
theorem C05_progress_pos (crc : CrcFn) (mgr : MgrFn) (ds : Dec) (buf : Bytes) (h : ds.Inv)
    (hne : buf ≠ []) : 0 < (decap crc mgr ds buf).consumed := by
  have := C05_progress crc mgr ds buf h
  have hl : 0 < buf.length := List.length_pos_iff.mpr hne
  simp only [FIXED_HEADER_LEN] at this
  omega

example : pPad ≠ [] := by decide

/-- the well-founded measure of a frame walker: what remains after dropping the consumed bytes is
strictly shorter -/
theorem C05_measure (crc : CrcFn) (mgr : MgrFn) (ds : Dec) (rem : Bytes) (h : ds.Inv)
    (hne : rem ≠ []) : (rem.drop (decap crc mgr ds rem).consumed).length < rem.length := by
  have h1 := C05_progress_pos crc mgr ds rem h hne
  have hl : 0 < rem.length := List.length_pos_iff.mpr hne
  simp only [List.length_drop]
  omega

example : ((pInter 1 ++ pPad).drop (decap zcrc simpleMgr d2 (pInter 1 ++ pPad)).consumed) = pPad := by
  decide

/-- a frame walker: call `decap` on what remains until nothing remains; `none` = out of fuel -/
def frameWalk (crc : CrcFn) (mgr : MgrFn) : Nat → Dec → Bytes → Option (List DecOut)
  | _, _, [] => some []
  | 0, _, _ :: _ => none
  | fuel + 1, ds, b :: bs =>
    let o := decap crc mgr ds (b :: bs)
    (frameWalk crc mgr fuel o.st ((b :: bs).drop o.consumed)).map (o :: ·)

/-- The frame walker terminates within `rem.length` calls (in fact half as many), on any bytes,
from any reachable state, and none of the calls panics. -/
theorem C05_walk_terminates (crc : CrcFn) (mgr : MgrFn) (ds : Dec) (rem : Bytes) (h : ds.Inv) :
    ∃ outs, frameWalk crc mgr rem.length ds rem = some outs ∧ ∀ o ∈ outs, o.res ≠ .panic := by
  suffices key : ∀ (fuel : Nat) (ds : Dec) (rem : Bytes), ds.Inv → rem.length ≤ fuel →
      ∃ outs, frameWalk crc mgr fuel ds rem = some outs ∧ ∀ o ∈ outs, o.res ≠ .panic from
    key _ ds rem h (Nat.le_refl _)
  intro fuel
  induction fuel with
  | zero =>
    intro ds rem _ hl
    have : rem = [] := List.eq_nil_of_length_eq_zero (by omega)
    subst this
    exact ⟨[], rfl, by simp⟩
  | succ fuel ih =>
    intro ds rem hi hl
    match rem, hl with
    | [], _ => exact ⟨[], rfl, by simp⟩
    | b :: bs, hl =>
      have hm := C05_measure crc mgr ds (b :: bs) hi (by simp)
      obtain ⟨outs, ho, hp⟩ := ih (decap crc mgr ds (b :: bs)).st
        ((b :: bs).drop (decap crc mgr ds (b :: bs)).consumed) (C05_inv_decap crc mgr ds _ hi)
        (by omega)
      refine ⟨decap crc mgr ds (b :: bs) :: outs, ?_, ?_⟩
      · simp only [frameWalk, ho, Option.map_some]
      · intro o hmem
        rcases List.mem_cons.mp hmem with rfl | hmem
        · exact C05_total crc mgr ds _ hi
        · exact hp o hmem

-- an intermediate of id 1, an end of id 1 (completing the PDU), padding: three calls
example : (frameWalk zcrc simpleMgr (pInter 1 ++ pEnd 1 ++ pPad).length d2
    (pInter 1 ++ pEnd 1 ++ pPad)).map (List.map (fun o => ((match o.res with | .ok _ => true | _ => false), o.consumed))) =
    some [(true, 4), (true, 8), (true, 3)] := by decide

/-! ### 5. `get_label_or_frag_id` is total -/

theorem C05_peek_total (buf : Bytes) : peek buf ≠ .panic := by
  unfold peek
  split
  · simp
  rename_i hlen
  obtain ⟨w, hw⟩ := get16_some_of_le (b := buf) (off := 0) (by gse_omega)
  obtain ⟨r, hr⟩ := C14_read_ok w (get16_lt hw)
  simp only [hw, hr]
  match r with
  | none => simp
  | some (gseLen, k, lt) =>
    simp only []
    split
    · split
      · simp
      · rename_i hl
        obtain ⟨f, hf⟩ := get8_some_of_lt (b := buf) (off := FIXED_HEADER_LEN) (by gse_omega)
        rw [hf]; simp
    split
    · simp
    split
    · simp
    rename_i hb hr
    generalize (FIXED_HEADER_LEN + (if k = PktType.first then TOTAL_LENGTH_LEN + FRAG_ID_LEN else 0) +
      PROTOCOL_LEN) = off
    split
    · simp
    rename_i hl
    cases lt with
    | six =>
      simp only []
      obtain ⟨d, hd, hdl⟩ := slice_some_of_le (b := buf) (off := off) (len := LABEL_6_B_LEN)
        (by simpa [LabelType.len] using hl)
      obtain ⟨l, hl'⟩ := Label.new_some (lt := .six) hdl
      rw [hd]; simp only [Option.bind]; rw [hl']; simp
    | three =>
      simp only []
      obtain ⟨d, hd, hdl⟩ := slice_some_of_le (b := buf) (off := off) (len := LABEL_3_B_LEN)
        (by simpa [LabelType.len] using hl)
      obtain ⟨l, hl'⟩ := Label.new_some (lt := .three) hdl
      rw [hd]; simp only [Option.bind]; rw [hl']; simp
    | broadcast => exact absurd rfl hb
    | reuse => exact absurd rfl hr

example : peek (pFirst 1) = .ok (.lbl .broadcast) ∧ peek (pInter 3) = .ok (.fragId 3) ∧
    peek [0xC0] = .err .sizeBuffer ∧ peek [0xD0, 0x05, 0x08, 0x00, 1] = .err .sizeBuffer := by
  decide

#print axioms C05_inv_new
#print axioms C05_inv_provision
#print axioms C05_inv_newPdu
#print axioms C05_inv_reset
#print axioms C05_inv_decap
#print axioms C05_inv_step
#print axioms C05_inv_reachable
#print axioms C05_d2_inv
#print axioms C05_hlen_shift
#print axioms C05_walk_extNew_mandatory
#print axioms C05_walk_extNew_optional
#print axioms C05_walk_fuel
#print axioms C05_walk_total
#print axioms C05_walk_len
#print axioms C05_total
#print axioms C05_total_reachable
#print axioms C05_consumed_le
#print axioms C05_progress
#print axioms C05_progress_pos
#print axioms C05_measure
#print axioms C05_walk_terminates
#print axioms C05_peek_total

end Gse
