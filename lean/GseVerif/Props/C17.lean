/-
Property C17 — "The bundled fragment memory honours the memory-trait contract".

For every sequence of memory operations the bundled memory (`SimpleGseMemory`, modelled by `Mem`)
behaves like a bag of free buffers plus at most one saved context per slot.  All theorems are about
the model functions `Mem.provision / newPdu / newFrag / takeFrag / saveFrag`; "every reachable
state" is `ops.foldl Mem.step (Mem.new n sz)` for an arbitrary list `ops : List MemOp`
(any fragment ids, aliasing or not; any number of slots, including 0; any buffer sizes).

Sections: 1 invariant, 2 no panic, 3–7 per-operation contracts, 8 save/take round trip,
9 conservation of storages (identity and contents), 10 refinement of the abstract specification.
-/
import GseVerif.Lemmas.Memory

namespace Gse
open Gen

/-! Fixtures for the `example`s (Lemmas/Memory.lean, namespace `C17`): `m3` is a 2-slot memory
(so ids 1 and 3 alias on slot 1) with three free buffers, `m3s` the same with `(ctx 1, sto 3 6)`
saved in slot 1, `m0` a memory without slots. -/
open C17

example : m3 = ⟨[sto 3 6, sto 2 4, sto 1 4], [none, none], 2, 4, 4⟩ := by decide
example : m3s = ([MemOp.newFrag (ctx 1)].foldl Mem.step m3).step (.saveFrag (ctx 1, sto 3 6)) := by
  decide

/-! ### 1. The invariant holds in every reachable state -/

theorem C17_wf_new (n sz : Nat) : (Mem.new n sz).WF := Mem.wf_new n sz

/-- every operation preserves the invariant -/
theorem C17_wf_step (m : Mem) (hw : m.WF) (op : MemOp) : (m.step op).WF := hw.step op

example : m3.WF ∧ (m3.step (.newFrag (ctx 3))).WF := by decide

theorem C17_wf_reachable (n sz : Nat) (ops : List MemOp) :
    (ops.foldl Mem.step (Mem.new n sz)).WF := (Mem.wf_new n sz).foldl ops

/-- the configuration of a reachable state is the one given to `new`; in particular the capacity
of the free list stays `max_frag_id + MIN_MARGIN` -/
theorem C17_cfg_reachable (n sz : Nat) (ops : List MemOp) :
    (ops.foldl Mem.step (Mem.new n sz)).maxFragId = n ∧
    (ops.foldl Mem.step (Mem.new n sz)).maxPduSize = sz ∧
    (ops.foldl Mem.step (Mem.new n sz)).cap = n + MIN_MARGIN :=
  Mem.foldl_step_cfg ops (Mem.new n sz)

/-! ### 2. No operation panics -/

/-- Under the invariant no operation panics: `self.frags[idx]` is always in range and the
zero-slot memory answers with errors instead of computing `% 0`. -/
theorem C17_no_panic (m : Mem) (hw : m.WF) :
    (∀ s, (m.provision s).1 ≠ .panic) ∧ m.newPdu.1 ≠ .panic ∧ (∀ c, (m.newFrag c).1 ≠ .panic) ∧
    (∀ fid, (m.takeFrag fid).1 ≠ .panic) ∧ (∀ cs, (m.saveFrag cs).1 ≠ .panic) := by
  obtain ⟨h1, _⟩ := hw
  refine ⟨fun s => ?_, ?_, fun c => ?_, fun fid => ?_, fun cs => ?_⟩
  · simp only [Mem.provision]; grind
  · simp only [Mem.newPdu]; grind
  · by_cases h0 : m.maxFragId = 0
    · simp [Mem.newFrag, h0]
    · have := Nat.mod_lt c.fragId (Nat.pos_of_ne_zero h0)
      simp only [Mem.newFrag, Mem.newPdu]; grind
  · by_cases h0 : m.maxFragId = 0
    · simp [Mem.takeFrag, h0]
    · have := Nat.mod_lt fid (Nat.pos_of_ne_zero h0)
      simp only [Mem.takeFrag]; grind
  · by_cases h0 : m.maxFragId = 0
    · simp [Mem.saveFrag, h0]
    · have := Nat.mod_lt cs.1.fragId (Nat.pos_of_ne_zero h0)
      simp only [Mem.saveFrag]; grind

example : m3.WF := by decide
-- the invariant is needed: with a slot array shorter than `max_frag_id` the model does panic
example : (({ m3 with frags := [none] } : Mem).takeFrag 1).1 = .panic := by decide

/-- the same, for operations as data -/
theorem C17_no_panic_run (m : Mem) (hw : m.WF) (op : MemOp) : (m.run op).1.isPanic = false := by
  obtain ⟨h1, h2, h3, h4, h5⟩ := C17_no_panic m hw
  cases op with
  | provision s => have := h1 s; simp only [Mem.run, Prod.map]; revert this
                   cases (m.provision s).1 <;> simp [MemOut.isPanic]
  | newPdu => simp only [Mem.run, Prod.map]; revert h2
              cases m.newPdu.1 <;> simp [MemOut.isPanic]
  | newFrag c => have := h3 c; simp only [Mem.run, Prod.map]; revert this
                 cases (m.newFrag c).1 <;> simp [MemOut.isPanic]
  | takeFrag fid => have := h4 fid; simp only [Mem.run, Prod.map]; revert this
                    cases (m.takeFrag fid).1 <;> simp [MemOut.isPanic]
  | saveFrag cs => have := h5 cs; simp only [Mem.run, Prod.map]; revert this
                   cases (m.saveFrag cs).1 <;> simp [MemOut.isPanic]

/-- no sequence of operations on a fresh memory ever panics -/
theorem C17_no_panic_reachable (n sz : Nat) (ops : List MemOp) (op : MemOp) :
    ((ops.foldl Mem.step (Mem.new n sz)).run op).1.isPanic = false :=
  C17_no_panic_run _ (C17_wf_reachable n sz ops) op

/-- a memory without slots refuses every fragment operation with an error and is unchanged -/
theorem C17_zero_slots (m : Mem) (h0 : m.maxFragId = 0) :
    (∀ c, m.newFrag c = (.err .storageUnderflow, m)) ∧
    (∀ fid, m.takeFrag fid = (.err .undefinedId, m)) ∧
    (∀ cs, m.saveFrag cs = (.err .memoryCorrupted, m)) := by
  simp [Mem.newFrag, Mem.takeFrag, Mem.saveFrag, h0]

example : m0.maxFragId = 0 ∧ m0.storages = [sto 9 4] := by decide
example : m0.newFrag (ctx 1) = (.err .storageUnderflow, m0) := (C17_zero_slots m0 rfl).1 _

/-! ### 3. `provision_storage` -/

/-- free list full: `StorageOverflow` handing back the very buffer, memory unchanged -/
theorem C17_provision_overflow (m : Mem) (s : Storage) (h : m.storages.length = m.cap) :
    m.provision s = (.err (.storageOverflow s), m) := by
  simp [Mem.provision, h]

example : (m3.step (.provision (sto 4 4))).storages.length = (m3.step (.provision (sto 4 4))).cap := by
  decide
example : (m3.step (.provision (sto 4 4))).provision (sto 5 9) =
    (.err (.storageOverflow (sto 5 9)), m3.step (.provision (sto 4 4))) :=
  C17_provision_overflow _ _ (by decide)

/-- room left but the buffer is smaller than the PDU size: `BufferTooSmall` handing back the very
buffer, memory unchanged -/
theorem C17_provision_small (m : Mem) (s : Storage) (h : m.storages.length ≠ m.cap)
    (hs : s.data.length < m.maxPduSize) : m.provision s = (.err (.bufferTooSmall s), m) := by
  simp [Mem.provision, Ne.symm h, hs]

example : m3.provision (sto 4 3) = (.err (.bufferTooSmall (sto 4 3)), m3) :=
  C17_provision_small _ _ (by decide) (by decide)

/-- otherwise the buffer is pushed on the free list and nothing else changes -/
theorem C17_provision_ok (m : Mem) (s : Storage) (h : m.storages.length ≠ m.cap)
    (hs : m.maxPduSize ≤ s.data.length) :
    m.provision s = (.ok (), { m with storages := s :: m.storages }) := by
  simp [Mem.provision, Ne.symm h, Nat.not_lt.mpr hs]

example : m3.provision (sto 4 4) = (.ok (), { m3 with storages := sto 4 4 :: m3.storages }) :=
  C17_provision_ok _ _ (by decide) (by decide)

/-- exact characterisation of the three outcomes (they are exhaustive and exclusive); every error
carries exactly the buffer that was passed and leaves the memory unchanged -/
theorem C17_provision_iff (m : Mem) (s : Storage) :
    ((m.provision s).1 = .err (.storageOverflow s) ↔ m.storages.length = m.cap) ∧
    ((m.provision s).1 = .err (.bufferTooSmall s) ↔
      (m.storages.length ≠ m.cap ∧ s.data.length < m.maxPduSize)) ∧
    ((m.provision s).1 = .ok () ↔ (m.storages.length ≠ m.cap ∧ m.maxPduSize ≤ s.data.length)) ∧
    (∀ e, (m.provision s).1 = .err e →
      (m.provision s).2 = m ∧ (e = .storageOverflow s ∨ e = .bufferTooSmall s)) := by
  simp only [Mem.provision]; grind

example : (m3.provision (sto 4 3)).1 = .err (.bufferTooSmall (sto 4 3)) :=
  (C17_provision_iff m3 (sto 4 3)).2.1.mpr (by decide)

/-! ### 4. `new_pdu` -/

/-- no free buffer: `StorageUnderflow`, memory unchanged -/
theorem C17_newPdu_empty (m : Mem) (h : m.storages = []) :
    m.newPdu = (.err .storageUnderflow, m) := by
  simp [Mem.newPdu, h]

example : (Mem.new 2 4).newPdu = (.err .storageUnderflow, Mem.new 2 4) :=
  C17_newPdu_empty _ rfl

/-- otherwise the top of the free list is handed out and removed; slots unchanged -/
theorem C17_newPdu_top (m : Mem) (s : Storage) (rest : List Storage) (h : m.storages = s :: rest) :
    m.newPdu = (.ok s, { m with storages := rest }) := by
  simp [Mem.newPdu, h]

example : m3.newPdu = (.ok (sto 3 6), { m3 with storages := [sto 2 4, sto 1 4] }) :=
  C17_newPdu_top _ _ _ rfl

/-- `new_pdu` fails only when no buffer is free, and never touches the slots -/
theorem C17_newPdu_iff (m : Mem) :
    (m.newPdu.1 = .err .storageUnderflow ↔ m.storages = []) ∧
    (∀ e, m.newPdu.1 = .err e → e = .storageUnderflow ∧ m.newPdu.2 = m) ∧
    (∀ s, m.newPdu.1 = .ok s ↔ m.storages.head? = some s) ∧
    (∀ s, m.newPdu.1 = .ok s → m.storages = s :: m.newPdu.2.storages) ∧
    m.newPdu.2.frags = m.frags := by
  simp only [Mem.newPdu]; grind

example : m3s.newPdu.1 = .ok (sto 2 4) := ((C17_newPdu_iff m3s).2.2.1 _).mpr (by decide)

/-! ### 5. `new_frag` -/

/-- under the invariant a slot is defined, and is either empty or holds one saved context -/
theorem C17_slot_defined (m : Mem) (hw : m.WF) (h0 : 0 < m.maxFragId) (fid : Nat) :
    m.frags[fid % m.maxFragId]? = some none ∨
      ∃ c s, m.frags[fid % m.maxFragId]? = some (some (c, s)) :=
  hw.slot_cases (Nat.ne_of_gt h0) fid

example : m3s.frags[3 % m3s.maxFragId]? = some (some (ctx 1, sto 3 6)) := by decide

/-- the slot holds a context: it is replaced (dropped), its buffer is reused for the new context,
the slot becomes empty, the free list is untouched -/
theorem C17_newFrag_replace (m : Mem) (h0 : 0 < m.maxFragId) (c c0 : Ctx) (s0 : Storage)
    (h : m.frags[c.fragId % m.maxFragId]? = some (some (c0, s0))) :
    m.newFrag c = (.ok (c, s0), { m with frags := m.frags.set (c.fragId % m.maxFragId) none }) := by
  simp only [Mem.newFrag]; grind

-- id 3 aliases id 1: the context saved under id 1 is replaced and its buffer reused
example : m3s.newFrag (ctx 3) = (.ok (ctx 3, sto 3 6), { m3s with frags := [none, none] }) :=
  C17_newFrag_replace m3s (by decide) (ctx 3) (ctx 1) (sto 3 6) (by decide)

/-- the slot is empty and a buffer is free: behaves like `new_pdu`, the slot stays empty -/
theorem C17_newFrag_fresh (m : Mem) (h0 : 0 < m.maxFragId) (c : Ctx) (s : Storage)
    (rest : List Storage) (h : m.frags[c.fragId % m.maxFragId]? = some none)
    (hs : m.storages = s :: rest) :
    m.newFrag c = (.ok (c, s), { m with storages := rest }) := by
  have := set_none_of_none _ _ h
  simp [Mem.newFrag, Mem.newPdu, Nat.ne_of_gt h0, h, hs, this]

example : m3s.newFrag (ctx 2) = (.ok (ctx 2, sto 2 4), { m3s with storages := [sto 1 4] }) :=
  C17_newFrag_fresh m3s (by decide) (ctx 2) _ _ (by decide) rfl

/-- the slot is empty and no buffer is free: `StorageUnderflow`, and nothing changed -/
theorem C17_newFrag_underflow (m : Mem) (h0 : 0 < m.maxFragId) (c : Ctx)
    (h : m.frags[c.fragId % m.maxFragId]? = some none) (hs : m.storages = []) :
    m.newFrag c = (.err .storageUnderflow, m) := by
  have := set_none_of_none _ _ h
  simp [Mem.newFrag, Mem.newPdu, Nat.ne_of_gt h0, h, hs, this]
  rw [← hs]

example : (Mem.new 2 4).newFrag (ctx 3) = (.err .storageUnderflow, Mem.new 2 4) :=
  C17_newFrag_underflow _ (by decide) _ (by decide) rfl

/-- `new_frag` touches no other slot, and afterwards the slot is empty (the context lives with the
caller until `save_frag`) -/
theorem C17_newFrag_slots (m : Mem) (hw : m.WF) (h0 : 0 < m.maxFragId) (c : Ctx) :
    (m.newFrag c).2.frags[c.fragId % m.maxFragId]? = some none ∧
    ∀ j, j ≠ c.fragId % m.maxFragId → (m.newFrag c).2.frags[j]? = m.frags[j]? := by
  have hlt := hw.slot_lt (Nat.ne_of_gt h0) c.fragId
  simp only [Mem.newFrag, Mem.newPdu]; grind

example : (m3s.newFrag (ctx 2)).2.frags[1]? = m3s.frags[1]? :=
  (C17_newFrag_slots m3s (by decide) (by decide) (ctx 2)).2 1 (by decide)

/-- `new_frag` fails only with `StorageUnderflow`, exactly when the slot is empty and no buffer is
free (or the memory has no slot at all) -/
theorem C17_newFrag_err_iff (m : Mem) (hw : m.WF) (c : Ctx) :
    (∀ e, (m.newFrag c).1 = .err e → e = .storageUnderflow ∧ (m.newFrag c).2 = m) ∧
    ((m.newFrag c).1 = .err .storageUnderflow ↔
      (m.maxFragId = 0 ∨ (m.frags[c.fragId % m.maxFragId]? = some none ∧ m.storages = []))) := by
  by_cases h0 : m.maxFragId = 0
  · simp [Mem.newFrag, h0]
  · have hpos := Nat.pos_of_ne_zero h0
    rcases hw.slot_cases h0 c.fragId with h | ⟨c0, s0, h⟩
    · cases hs : m.storages with
      | nil => rw [C17_newFrag_underflow m hpos c h hs]; simp [h]
      | cons s rest => rw [C17_newFrag_fresh m hpos c s rest h hs]; simp [h0]
    · rw [C17_newFrag_replace m hpos c c0 s0 h]; simp [h0, h]

example : (m3s.newFrag (ctx 3)).1 ≠ .err .storageUnderflow := by
  rw [Ne, (C17_newFrag_err_iff m3s (by decide) (ctx 3)).2]; decide

/-! ### 6. `take_frag` -/

/-- the slot holds a context saved under exactly this id: it is returned with its buffer and
exactly that slot is emptied -/
theorem C17_takeFrag_hit (m : Mem) (h0 : 0 < m.maxFragId) (fid : Nat) (c : Ctx) (s : Storage)
    (h : m.frags[fid % m.maxFragId]? = some (some (c, s))) (hc : c.fragId = fid) :
    m.takeFrag fid = (.ok (c, s), { m with frags := m.frags.set (fid % m.maxFragId) none }) := by
  simp only [Mem.takeFrag]; grind

example : m3s.takeFrag 1 = (.ok (ctx 1, sto 3 6), { m3s with frags := [none, none] }) :=
  C17_takeFrag_hit m3s (by decide) 1 _ _ (by decide) rfl

/-- otherwise (empty slot, or a context saved under another id sharing the slot, or no slot at
all): `UndefinedId` and the memory is completely unchanged -/
theorem C17_takeFrag_miss (m : Mem) (hw : m.WF) (fid : Nat)
    (h : ¬ ∃ c s, m.frags[fid % m.maxFragId]? = some (some (c, s)) ∧ c.fragId = fid) :
    m.takeFrag fid = (.err .undefinedId, m) := by
  by_cases h0 : m.maxFragId = 0
  · simp [Mem.takeFrag, h0]
  · have hlt := hw.slot_lt h0 fid
    simp only [Mem.takeFrag]; grind

-- id 3 aliases the saved id 1: undefined, and the saved context stays in place
example : m3s.takeFrag 3 = (.err .undefinedId, m3s) :=
  C17_takeFrag_miss m3s (by decide) 3 (by
    rintro ⟨c, s, h, hc⟩
    have h1 : m3s.frags[3 % m3s.maxFragId]? = some (some (ctx 1, sto 3 6)) := by decide
    rw [h1] at h; cases h; exact absurd hc (by decide))

/-- `take_frag` returns `(c, s)` iff that is what the slot holds and it was saved under this id -/
theorem C17_takeFrag_ok_iff (m : Mem) (hw : m.WF) (fid : Nat) (c : Ctx) (s : Storage) :
    (m.takeFrag fid).1 = .ok (c, s) ↔
      (0 < m.maxFragId ∧ m.frags[fid % m.maxFragId]? = some (some (c, s)) ∧ c.fragId = fid) := by
  constructor
  · intro hr
    by_cases hex : ∃ c s, m.frags[fid % m.maxFragId]? = some (some (c, s)) ∧ c.fragId = fid
    · obtain ⟨c', s', h, hc⟩ := hex
      have h0 : 0 < m.maxFragId := by
        apply Nat.pos_of_ne_zero; intro h0; simp [Mem.takeFrag, h0] at hr
      rw [C17_takeFrag_hit m h0 fid c' s' h hc] at hr
      cases hr
      exact ⟨h0, h, hc⟩
    · rw [C17_takeFrag_miss m hw fid hex] at hr; cases hr
  · rintro ⟨h0, h, hc⟩
    rw [C17_takeFrag_hit m h0 fid c s h hc]

example : (m3s.takeFrag 1).1 = .ok (ctx 1, sto 3 6) :=
  (C17_takeFrag_ok_iff m3s (by decide) 1 _ _).mpr (by decide)

/-- the only error of `take_frag` is `UndefinedId`, and then `m' = m` -/
theorem C17_takeFrag_err (m : Mem) (hw : m.WF) (fid : Nat) (e : MemErr)
    (h : (m.takeFrag fid).1 = .err e) : e = .undefinedId ∧ (m.takeFrag fid).2 = m := by
  by_cases hex : ∃ c s, m.frags[fid % m.maxFragId]? = some (some (c, s)) ∧ c.fragId = fid
  · obtain ⟨c', s', h', hc⟩ := hex
    have h0 : 0 < m.maxFragId := by
      apply Nat.pos_of_ne_zero; intro h0
      have := hw.1; rw [h0] at this
      rw [List.getElem?_eq_none (by omega)] at h'; cases h'
    rw [C17_takeFrag_hit m h0 fid c' s' h' hc] at h; cases h
  · rw [C17_takeFrag_miss m hw fid hex] at h ⊢; cases h; exact ⟨rfl, rfl⟩

example : (m3s.takeFrag 3).2 = m3s := (C17_takeFrag_err m3s (by decide) 3 .undefinedId (by decide)).2

/-- a successful `take_frag` leaves every other slot and the free list alone -/
theorem C17_takeFrag_slots (m : Mem) (fid : Nat) :
    (m.takeFrag fid).2.storages = m.storages ∧
    ∀ j, j ≠ fid % m.maxFragId → (m.takeFrag fid).2.frags[j]? = m.frags[j]? := by
  simp only [Mem.takeFrag]; grind

example : (m3s.takeFrag 1).2.frags[0]? = m3s.frags[0]? :=
  (C17_takeFrag_slots m3s 1).2 0 (by decide)

/-! ### 7. `save_frag` -/

/-- the slot is empty: the context and its buffer are stored there, nothing else changes -/
theorem C17_saveFrag_free (m : Mem) (h0 : 0 < m.maxFragId) (cs : Ctx × Storage)
    (h : m.frags[cs.1.fragId % m.maxFragId]? = some none) :
    m.saveFrag cs = (.ok (), { m with frags := m.frags.set (cs.1.fragId % m.maxFragId) (some cs) }) ∧
    (m.saveFrag cs).2.frags[cs.1.fragId % m.maxFragId]? = some (some cs) ∧
    ∀ j, j ≠ cs.1.fragId % m.maxFragId → (m.saveFrag cs).2.frags[j]? = m.frags[j]? := by
  simp only [Mem.saveFrag]; grind

example : (m3s.saveFrag (ctx 2, sto 7 4)).1 = .ok () ∧
    (m3s.saveFrag (ctx 2, sto 7 4)).2.frags = [some (ctx 2, sto 7 4), some (ctx 1, sto 3 6)] := by
  have := (C17_saveFrag_free m3s (by decide) (ctx 2, sto 7 4) (by decide)).1
  rw [this]; decide

/-- the slot is occupied (by the same or an aliasing id), or there is no slot: the save is refused
with `MemoryCorrupted` and the memory is unchanged -/
theorem C17_saveFrag_occupied (m : Mem) (cs : Ctx × Storage)
    (h : m.maxFragId = 0 ∨ ∃ x, m.frags[cs.1.fragId % m.maxFragId]? = some (some x)) :
    m.saveFrag cs = (.err .memoryCorrupted, m) := by
  simp only [Mem.saveFrag]; grind

example : m3s.saveFrag (ctx 3, sto 7 4) = (.err .memoryCorrupted, m3s) :=
  C17_saveFrag_occupied m3s _ (.inr ⟨(ctx 1, sto 3 6), by decide⟩)

/-- `save_frag` succeeds iff the slot is empty -/
theorem C17_saveFrag_ok_iff (m : Mem) (hw : m.WF) (cs : Ctx × Storage) :
    ((m.saveFrag cs).1 = .ok () ↔
      (0 < m.maxFragId ∧ m.frags[cs.1.fragId % m.maxFragId]? = some none)) ∧
    (∀ e, (m.saveFrag cs).1 = .err e → e = .memoryCorrupted ∧ (m.saveFrag cs).2 = m) := by
  by_cases h0 : m.maxFragId = 0
  · simp [Mem.saveFrag, h0]
  · have hpos := Nat.pos_of_ne_zero h0
    rcases hw.slot_cases h0 cs.1.fragId with h | ⟨c0, s0, h⟩
    · rw [(C17_saveFrag_free m hpos cs h).1]; simp [hpos, h]
    · rw [C17_saveFrag_occupied m cs (.inr ⟨_, h⟩)]; simp [h]

example : (m3s.saveFrag (ctx 3, sto 7 4)).1 ≠ .ok () := by
  rw [Ne, (C17_saveFrag_ok_iff m3s (by decide) _).1]; decide

/-! ### 8. Save-then-take round trip -/

/-- immediately after a successful `save_frag (c, s)`, `take_frag c.frag_id` returns exactly
`(c, s)` and restores the memory as it was before the save -/
theorem C17_save_take (m : Mem) (c : Ctx) (s : Storage) (m1 : Mem)
    (h : m.saveFrag (c, s) = (.ok (), m1)) : m1.takeFrag c.fragId = (.ok (c, s), m) := by
  by_cases h0 : m.maxFragId = 0
  · simp [Mem.saveFrag, h0] at h
  · simp only [Mem.saveFrag, h0, if_false] at h
    split at h
    · cases h
    · rename_i hs
      have hlt : c.fragId % m.maxFragId < m.frags.length := by
        rcases Nat.lt_or_ge (c.fragId % m.maxFragId) m.frags.length with h' | h'
        · exact h'
        · rw [List.getElem?_eq_none h'] at hs; cases hs
      have hn := set_none_of_none _ _ hs
      cases h
      simp only [Mem.takeFrag, h0, if_false, List.getElem?_set_self hlt, if_true, List.set_set, hn]
    · cases h

example : (m3.saveFrag (ctx 3, sto 7 4)).1 = .ok () := by decide
example : (m3.saveFrag (ctx 3, sto 7 4)).2.takeFrag 3 = (.ok (ctx 3, sto 7 4), m3) :=
  C17_save_take m3 (ctx 3) (sto 7 4) _ (by decide)

/-- a saved context stays in its slot across every operation that does not release it -/
theorem C17_saved_stable (m : Mem) (c : Ctx) (s : Storage)
    (h : m.frags[c.fragId % m.maxFragId]? = some (some (c, s))) (op : MemOp)
    (hop : ¬ op.releases m.maxFragId c.fragId) :
    (m.step op).frags[c.fragId % m.maxFragId]? = some (some (c, s)) := by
  cases op <;>
    simp only [Mem.step, Mem.provision, Mem.newPdu, Mem.newFrag, Mem.takeFrag, Mem.saveFrag,
      MemOp.releases] at hop ⊢ <;>
    grind

-- a refused `take_frag` of the aliasing id 3 leaves the context saved under id 1 in place
example : (m3s.step (.takeFrag 3)).frags[1 % m3s.maxFragId]? = some (some (ctx 1, sto 3 6)) :=
  C17_saved_stable m3s (ctx 1) (sto 3 6) (by decide) (.takeFrag 3) (by decide)

/-- Round trip with intervening operations: after a successful `save_frag (c, s)`, and any
sequence of operations none of which releases that context (provisioning, `new_pdu`, anything on
other slots, refused operations on aliasing ids), `take_frag c.frag_id` returns exactly `(c, s)`:
the context and buffer last saved under that id. -/
theorem C17_save_ops_take (m : Mem) (c : Ctx) (s : Storage) (m1 : Mem)
    (h : m.saveFrag (c, s) = (.ok (), m1)) (ops : List MemOp)
    (hops : ∀ op ∈ ops, ¬ op.releases m.maxFragId c.fragId) :
    ((ops.foldl Mem.step m1).takeFrag c.fragId).1 = .ok (c, s) ∧
    ((ops.foldl Mem.step m1).takeFrag c.fragId).2 =
      { (ops.foldl Mem.step m1) with
        frags := (ops.foldl Mem.step m1).frags.set (c.fragId % m.maxFragId) none } := by
  have h0 : 0 < m.maxFragId := by
    apply Nat.pos_of_ne_zero; intro h0; simp [Mem.saveFrag, h0] at h
  have hn1 : m1.maxFragId = m.maxFragId := by
    have := (m.step_cfg (.saveFrag (c, s))).1; simpa [Mem.step, h] using this
  have hs1 : m1.frags[c.fragId % m1.maxFragId]? = some (some (c, s)) := by
    rw [hn1]
    simp only [Mem.saveFrag] at h
    grind
  have key : ∀ (ops : List MemOp) (m1 : Mem), m1.maxFragId = m.maxFragId →
      m1.frags[c.fragId % m1.maxFragId]? = some (some (c, s)) →
      (∀ op ∈ ops, ¬ op.releases m.maxFragId c.fragId) →
      (ops.foldl Mem.step m1).maxFragId = m.maxFragId ∧
      (ops.foldl Mem.step m1).frags[c.fragId % m.maxFragId]? = some (some (c, s)) := by
    intro ops
    induction ops with
    | nil => intro m1 hn hs _; exact ⟨hn, hn ▸ hs⟩
    | cons op ops ih =>
      intro m1 hn hs hops
      simp only [List.foldl_cons]
      refine ih (m1.step op) ((m1.step_cfg op).1.trans hn) ?_ (fun o ho => hops o (List.mem_cons_of_mem _ ho))
      rw [(m1.step_cfg op).1]
      exact C17_saved_stable m1 c s hs op (hn ▸ hops op List.mem_cons_self)
  obtain ⟨hn2, hs2⟩ := key ops m1 hn1 hs1 hops
  have := C17_takeFrag_hit (ops.foldl Mem.step m1) (hn2 ▸ h0) c.fragId c s (hn2 ▸ hs2) rfl
  rw [this]
  exact ⟨rfl, by simp only [hn2]⟩

-- save under id 1, then: provision, new_pdu, a new fragment on the other slot, a refused take of
-- the aliasing id 3, a refused save of the aliasing id 3 — id 1 still comes back intact
example :
    (([MemOp.provision (sto 8 4), .newPdu, .newFrag (ctx 2), .takeFrag 3,
        .saveFrag (ctx 3, sto 7 4)].foldl Mem.step
      (m3.saveFrag (ctx 1, sto 5 5)).2).takeFrag 1).1 = .ok (ctx 1, sto 5 5) :=
  (C17_save_ops_take m3 (ctx 1) (sto 5 5) _ rfl _ (by decide)).1
-- and the hypothesis matters: a `new_frag` of the aliasing id 3 replaces the context
example : (((m3.saveFrag (ctx 1, sto 5 5)).2.step (.newFrag (ctx 3))).takeFrag 1).1 =
    .err .undefinedId := by decide

/-! ### 9. Storages are only moved: conservation of identity and contents -/

/-- Every operation only moves storages: what the memory owns afterwards plus what the result hands
to the caller is, as a multiset of `Storage` values (ghost identity *and* byte contents), what the
memory owned before plus what the call handed in.

The single exception is a refused `save_frag` (`MemoryCorrupted`, excluded here and stated in
`C17_saveFrag_refused_drops`): the Rust signature cannot hand the refused `(context, buffer)` back, so
the callee drops it. -/
theorem C17_storages_conserved (m : Mem) (hw : m.WF) (op : MemOp)
    (hx : (m.run op).1 ≠ .unit (.err .memoryCorrupted)) :
    ((m.run op).2.allStorages ++ (m.run op).1.handed).Perm (m.allStorages ++ op.given) := by
  cases op with
  | provision s =>
    simp only [Mem.run, Mem.provision, Prod.map]
    repeat' split
    all_goals simp [Mem.allStorages, MemOut.handed, MemErr.storages, MemOp.given]
    rw [← List.append_assoc]; exact (List.perm_append_singleton _ _).symm
  | newPdu =>
    simp only [Mem.run, Mem.newPdu, Prod.map]
    split
    · simp [Mem.allStorages, MemOut.handed, MemErr.storages, MemOp.given]
    · rename_i s rest hs
      simp [Mem.allStorages, MemOut.handed, MemOp.given, hs]
      rw [← List.append_assoc]; exact List.perm_append_singleton _ _
  | newFrag c =>
    by_cases h0 : m.maxFragId = 0
    · simp [Mem.run, (C17_zero_slots m h0).1, MemOut.handed, MemErr.storages, MemOp.given]
    · have hpos := Nat.pos_of_ne_zero h0
      rcases hw.slot_cases h0 c.fragId with h | ⟨c0, s0, h⟩
      · cases hs : m.storages with
        | nil =>
          simp [Mem.run, C17_newFrag_underflow m hpos c h hs, MemOut.handed, MemErr.storages,
            MemOp.given]
        | cons s rest =>
          simp [Mem.run, C17_newFrag_fresh m hpos c s rest h hs, MemOut.handed, MemOp.given,
            Mem.allStorages, hs]
          rw [← List.append_assoc]; exact List.perm_append_singleton _ _
      · simp only [Mem.run, C17_newFrag_replace m hpos c c0 s0 h, Prod.map, id, MemOut.handed,
          MemOp.given, Mem.allStorages, List.append_nil, List.append_assoc]
        refine List.Perm.append_left _ ?_
        exact List.perm_append_singleton _ _ |>.trans (slotStorages_set_none _ _ c0 s0 h)
  | takeFrag fid =>
    by_cases hex : ∃ c s, m.frags[fid % m.maxFragId]? = some (some (c, s)) ∧ c.fragId = fid
    · obtain ⟨c', s', h', hc⟩ := hex
      have h0 : 0 < m.maxFragId := by
        apply Nat.pos_of_ne_zero; intro h0
        have := hw.1; rw [h0] at this
        rw [List.getElem?_eq_none (by omega)] at h'; cases h'
      simp only [Mem.run, C17_takeFrag_hit m h0 fid c' s' h' hc, Prod.map, id, MemOut.handed,
        MemOp.given, Mem.allStorages, List.append_nil, List.append_assoc]
      refine List.Perm.append_left _ ?_
      exact List.perm_append_singleton _ _ |>.trans (slotStorages_set_none _ _ c' s' h')
    · simp [Mem.run, C17_takeFrag_miss m hw fid hex, MemOut.handed, MemErr.storages, MemOp.given]
  | saveFrag cs =>
    by_cases h0 : m.maxFragId = 0
    · simp [Mem.run, (C17_zero_slots m h0).2.2] at hx
    · have hpos := Nat.pos_of_ne_zero h0
      rcases hw.slot_cases h0 cs.1.fragId with h | ⟨c0, s0, h⟩
      · simp only [Mem.run, (C17_saveFrag_free m hpos cs h).1, Prod.map, id, MemOut.handed,
          MemOp.given, Mem.allStorages, List.append_nil, List.append_assoc]
        refine List.Perm.append_left _ ?_
        exact (slotStorages_set_some _ _ cs h).trans (List.perm_append_singleton _ _).symm
      · simp [Mem.run, C17_saveFrag_occupied m cs (.inr ⟨_, h⟩)] at hx

-- a replaced context: its buffer goes to the caller, nothing is lost or duplicated
example : ((m3s.run (.newFrag (ctx 3))).2.allStorages ++ (m3s.run (.newFrag (ctx 3))).1.handed).Perm
    (m3s.allStorages ++ (MemOp.newFrag (ctx 3)).given) :=
  C17_storages_conserved m3s (by decide) _ (by decide)
example : (m3s.run (.newFrag (ctx 3))).2.allStorages = [sto 2 4, sto 1 4] ∧
    (m3s.run (.newFrag (ctx 3))).1.handed = [sto 3 6] ∧
    m3s.allStorages = [sto 2 4, sto 1 4, sto 3 6] := by decide

/-- The exception, explicitly: a refused `save_frag` leaves the memory unchanged and returns no
storage, so the refused `(c, s)` is dropped by the callee — conservation then reads
`allStorages m' = allStorages m` while `s` was handed in. -/
theorem C17_saveFrag_refused_drops (m : Mem) (hw : m.WF) (cs : Ctx × Storage)
    (h : (m.run (.saveFrag cs)).1 = .unit (.err .memoryCorrupted)) :
    (m.run (.saveFrag cs)).2 = m ∧ (m.run (.saveFrag cs)).1.handed = [] ∧
    (MemOp.saveFrag cs).given = [cs.2] := by
  have h1 : (m.saveFrag cs).1 = .err .memoryCorrupted := by
    simp only [Mem.run, Prod.map] at h
    exact MemOut.unit.inj h
  refine ⟨?_, by rw [h]; rfl, rfl⟩
  simp only [Mem.run, Prod.map, id]
  exact ((C17_saveFrag_ok_iff m hw cs).2 _ h1).2

example : (m3s.run (.saveFrag (ctx 3, sto 7 4))).1 = .unit (.err .memoryCorrupted) := by decide

/-- Buffer contents are never modified by the memory: every storage handed out by a result is,
with its identity and its bytes, one the memory owned or was just given. -/
theorem C17_contents_untouched (m : Mem) (hw : m.WF) (op : MemOp) (s : Storage)
    (hs : s ∈ (m.run op).1.handed) : s ∈ m.allStorages ++ op.given := by
  by_cases hx : (m.run op).1 = .unit (.err .memoryCorrupted)
  · rw [hx] at hs; simp [MemOut.handed, MemErr.storages] at hs
  · exact (C17_storages_conserved m hw op hx).subset (List.mem_append_right _ hs)

/-- … and every storage the memory owns afterwards is one it owned before or was just given -/
theorem C17_contents_kept (m : Mem) (hw : m.WF) (op : MemOp) (s : Storage)
    (hs : s ∈ (m.run op).2.allStorages) : s ∈ m.allStorages ++ op.given := by
  by_cases hx : (m.run op).1 = .unit (.err .memoryCorrupted)
  · cases op with
    | saveFrag cs =>
      rw [(C17_saveFrag_refused_drops m hw cs hx).1] at hs
      exact List.mem_append_left _ hs
    | provision s' =>
      simp only [Mem.run, Prod.map, MemOut.unit.injEq] at hx
      have := ((C17_provision_iff m s').2.2.2 _ hx).2
      simp at this
    | _ => simp [Mem.run, Prod.map] at hx
  · exact (C17_storages_conserved m hw op hx).subset (List.mem_append_left _ hs)

example : sto 3 6 ∈ (m3s.run (.takeFrag 1)).1.handed := by decide
example : sto 3 6 ∈ m3s.allStorages ++ (MemOp.takeFrag 1).given :=
  C17_contents_untouched m3s (by decide) (.takeFrag 1) _ (by decide)
example : sto 7 4 ∈ m3s.allStorages ++ (MemOp.saveFrag (ctx 2, sto 7 4)).given :=
  C17_contents_kept m3s (by decide) (.saveFrag (ctx 2, sto 7 4)) _ (by decide)

/-- conservation in every reachable state: any operation sequence on a fresh memory, any next
operation -/
theorem C17_storages_conserved_reachable (n sz : Nat) (ops : List MemOp) (op : MemOp)
    (hx : ((ops.foldl Mem.step (Mem.new n sz)).run op).1 ≠ .unit (.err .memoryCorrupted)) :
    (((ops.foldl Mem.step (Mem.new n sz)).run op).2.allStorages ++
        ((ops.foldl Mem.step (Mem.new n sz)).run op).1.handed).Perm
      ((ops.foldl Mem.step (Mem.new n sz)).allStorages ++ op.given) :=
  C17_storages_conserved _ (C17_wf_reachable n sz ops) op hx

example : (([MemOp.provision (sto 1 4)].foldl Mem.step (Mem.new 2 4)).run (.newFrag (ctx 3))).1 ≠
    .unit (.err .memoryCorrupted) := by decide

/-- a fresh memory owns nothing -/
theorem C17_new_owns_nothing (n sz : Nat) : (Mem.new n sz).allStorages = [] := by
  simp [Mem.allStorages, Mem.new, slotStorages_replicate_none]

/-! ### 10. Refinement of the abstract specification

Specification state (`MemSpec`): the free buffers as a stack and `slot : Nat → Option (Ctx × Storage)`.
`MemSpec.run` (Lemmas/Memory.lean) is the contract of sections 3–7 written as a function;
`Mem.abs m = (m.storages, fun i => (m.frags[i]?).join)`. -/

theorem C17_abs_new (n sz : Nat) : (Mem.new n sz).abs = MemSpec.empty := Mem.abs_new n sz

/-- every operation returns what the specification returns and has the specified abstract effect -/
theorem C17_refines_step (m : Mem) (hw : m.WF) (op : MemOp) :
    ((m.run op).1, (m.run op).2.abs) = m.abs.run m.cfg op := by
  cases op with
  | provision s =>
    simp only [Mem.run, Mem.provision, Prod.map, MemSpec.run, Mem.abs, Mem.cfg]
    grind
  | newPdu =>
    simp only [Mem.run, Mem.newPdu, Prod.map, MemSpec.run, Mem.abs]
    grind
  | newFrag c =>
    by_cases h0 : m.maxFragId = 0
    · simp [Mem.run, (C17_zero_slots m h0).1, MemSpec.run, Mem.cfg, h0]
    · have hpos := Nat.pos_of_ne_zero h0
      have hlt := hw.slot_lt h0 c.fragId
      rcases hw.slot_cases h0 c.fragId with h | ⟨c0, s0, h⟩
      · cases hs : m.storages with
        | nil =>
          simp [Mem.run, C17_newFrag_underflow m hpos c h hs, MemSpec.run, Mem.cfg, h0, Mem.abs, h,
            hs]
        | cons s rest =>
          simp [Mem.run, C17_newFrag_fresh m hpos c s rest h hs, MemSpec.run, Mem.cfg, h0, Mem.abs,
            h, hs]
      · simp [Mem.run, C17_newFrag_replace m hpos c c0 s0 h, MemSpec.run, Mem.cfg, h0, Mem.abs, h,
          abs_slot_set _ _ hlt]
  | takeFrag fid =>
    by_cases h0 : m.maxFragId = 0
    · simp [Mem.run, (C17_zero_slots m h0).2.1, MemSpec.run, Mem.cfg, h0]
    · have hpos := Nat.pos_of_ne_zero h0
      have hlt := hw.slot_lt h0 fid
      rcases hw.slot_cases h0 fid with h | ⟨c0, s0, h⟩
      · have hex : ¬ ∃ c s, m.frags[fid % m.maxFragId]? = some (some (c, s)) ∧ c.fragId = fid := by
          rintro ⟨c, s, h', -⟩; rw [h] at h'; cases h'
        simp [Mem.run, C17_takeFrag_miss m hw fid hex, MemSpec.run, Mem.cfg, h0, Mem.abs, h]
      · by_cases hc : c0.fragId = fid
        · simp [Mem.run, C17_takeFrag_hit m hpos fid c0 s0 h hc, MemSpec.run, Mem.cfg, h0, Mem.abs,
            h, hc, abs_slot_set _ _ hlt]
        · have hex : ¬ ∃ c s, m.frags[fid % m.maxFragId]? = some (some (c, s)) ∧ c.fragId = fid := by
            rintro ⟨c, s, h', hc'⟩; rw [h] at h'; cases h'; exact hc hc'
          simp [Mem.run, C17_takeFrag_miss m hw fid hex, MemSpec.run, Mem.cfg, h0, Mem.abs, h, hc]
  | saveFrag cs =>
    by_cases h0 : m.maxFragId = 0
    · simp [Mem.run, (C17_zero_slots m h0).2.2, MemSpec.run, Mem.cfg, h0]
    · have hpos := Nat.pos_of_ne_zero h0
      have hlt := hw.slot_lt h0 cs.1.fragId
      rcases hw.slot_cases h0 cs.1.fragId with h | ⟨c0, s0, h⟩
      · simp [Mem.run, (C17_saveFrag_free m hpos cs h).1, MemSpec.run, Mem.cfg, h0, Mem.abs, h,
          abs_slot_set _ _ hlt]
      · simp [Mem.run, C17_saveFrag_occupied m cs (.inr ⟨_, h⟩), MemSpec.run, Mem.cfg, h0, Mem.abs,
          h]

example : (m3s.abs.run m3s.cfg (.takeFrag 3)).1 = .ctx (.err .undefinedId) := by
  rw [← C17_refines_step m3s (by decide)]; decide

/-- Trace refinement: for every sequence of operations, a fresh memory returns exactly the
results the specification returns from the empty state. -/
theorem C17_refines_trace (n sz : Nat) (ops : List MemOp) :
    (Mem.new n sz).trace ops = MemSpec.trace ⟨n, sz, n + MIN_MARGIN⟩ MemSpec.empty ops := by
  have key : ∀ (ops : List MemOp) (m : Mem), m.WF →
      m.trace ops = MemSpec.trace m.cfg m.abs ops := by
    intro ops
    induction ops with
    | nil => intro m _; rfl
    | cons op ops ih =>
      intro m hw
      have hr := C17_refines_step m hw op
      have hc : (m.step op).cfg = m.cfg := by
        have := m.step_cfg op
        simp only [Mem.cfg, this.1, this.2.1, this.2.2.1]
      simp only [Mem.trace, MemSpec.trace, ← hr, ih (m.step op) (hw.step op), hc, Mem.run_snd]
  rw [key ops _ (Mem.wf_new n sz), Mem.abs_new]
  rfl

-- aliasing ids 1 and 3 on a 2-slot memory, via the specification
example : (Mem.new 2 4).trace
    [.provision (sto 1 4), .newFrag (ctx 1), .saveFrag (ctx 1, sto 1 4), .takeFrag 3,
     .saveFrag (ctx 3, sto 2 4), .takeFrag 1] =
    [.unit (.ok ()), .ctx (.ok (ctx 1, sto 1 4)), .unit (.ok ()), .ctx (.err .undefinedId),
     .unit (.err .memoryCorrupted), .ctx (.ok (ctx 1, sto 1 4))] := by decide

#print axioms C17_wf_new
#print axioms C17_wf_step
#print axioms C17_wf_reachable
#print axioms C17_cfg_reachable
#print axioms C17_no_panic
#print axioms C17_no_panic_run
#print axioms C17_no_panic_reachable
#print axioms C17_zero_slots
#print axioms C17_provision_overflow
#print axioms C17_provision_small
#print axioms C17_provision_ok
#print axioms C17_provision_iff
#print axioms C17_newPdu_empty
#print axioms C17_newPdu_top
#print axioms C17_newPdu_iff
#print axioms C17_slot_defined
#print axioms C17_newFrag_replace
#print axioms C17_newFrag_fresh
#print axioms C17_newFrag_underflow
#print axioms C17_newFrag_slots
#print axioms C17_newFrag_err_iff
#print axioms C17_takeFrag_hit
#print axioms C17_takeFrag_miss
#print axioms C17_takeFrag_ok_iff
#print axioms C17_takeFrag_err
#print axioms C17_takeFrag_slots
#print axioms C17_saveFrag_free
#print axioms C17_saveFrag_occupied
#print axioms C17_saveFrag_ok_iff
#print axioms C17_save_take
#print axioms C17_saved_stable
#print axioms C17_save_ops_take
#print axioms C17_storages_conserved
#print axioms C17_storages_conserved_reachable
#print axioms C17_saveFrag_refused_drops
#print axioms C17_contents_untouched
#print axioms C17_contents_kept
#print axioms C17_new_owns_nothing
#print axioms C17_abs_new
#print axioms C17_refines_step
#print axioms C17_refines_trace

end Gse
