/-
Property C06 — "Every emitted packet is a well-formed, length-accurate GSE packet".

Every packet written by `encap`, `encap_frag` or `encap_ext` parses under the independent reading
of ETSI TS 102 606 in Spec/Wire.lean (`Spec.parse`, written from the standard with plain numerals;
it shares no code with `generate_gse_header` / `read_gse_header`): start/end bits match the status
(complete, first, intermediate, end), the label-type bits match the label actually written (the
label after re-use substitution), the 12-bit GSE length equals the number of bytes written minus
2 and never exceeds 4095, the fields appear in the order frag id, total length, protocol type /
first extension id, label, extensions, payload, CRC (the order in which `Spec.parse` reads them),
and for packets without extensions total length = 2 + label length + PDU length.  The length
returned to the caller equals GSE length + 2, is at most the buffer length, and no byte at or
beyond that offset is modified (`Emitted`).

All theorems hold for every CRC calculator, every encapsulator state, every PDU, label, protocol
type, extension list, fragment id, every buffer size (also 0 and > 4097) and every context
position: first call and every continuation call.  `fid < 256`, `pt < 65536`, `ctx.crc < 2^32`,
extension ids `< 65536` are the Rust types `u8`, `u16`, `u32` (the model uses `Nat`); they are only
needed to say that the field read back is the argument itself rather than its truncation.
`ExtOk` (Props/C09.lean) is the tie between the variant and the data of an `Extension`.

Vocabulary (Lemmas/WireLayer.lean): `st.wireLen` is the length an `EncapStatus` reports;
`Emitted buf buf' n p` :=  `n ≤ buf.length ∧ buf'.length = buf.length ∧ buf'.drop n = buf.drop n ∧
Spec.parse (buf'.take n) = some p ∧ p.gseLen + FIXED_HEADER_LEN = n ∧ p.gseLen ≤ GSE_LEN_MAX`;
`lt.code` is the 2-bit LT code of a label type; `extBytes pt exts` are the bytes `encap_ext` puts
between label and PDU (extension chain, then the protocol type unless the last extension is a
final mandatory one).

The proofs apply `Spec.parse` to the closed forms of Lemmas/EncapLayer.lean (`parse_complete`,
`parse_first`, `parse_inter`, `parse_end`, then `encap_wire`, `encapFrag_wire`, `encapExt_wire`
in Lemmas/WireLayer.lean).

Remark on `encap_ext` (not part of C06, which fixes the total length only for packets without
extensions): the Total Length written with a first fragment is 2 + label + PDU also when
extension headers are present, i.e. it does not count the extension bytes.
-/
import GseVerif.Lemmas.WireLayer
import GseVerif.Props.C09

namespace Gse
open Gen

/-! Fixtures for the `example`s (those of C09, plus a 4-byte optional extension). -/
namespace C06
def ext4 : Ext := ⟨0x0345, .data4, [0xB1, 0xB2, 0xB3, 0xB4]⟩
def pdu100 : Bytes := List.replicate 100 0x55
def buf50 : Bytes := List.replicate 50 0
end C06
open C09 C06

/-! ### 1. `encap` -/

/-- C06 for `encap`: complete packets and first fragments. -/
theorem C06_wellformed_encap (crc : CrcFn) (es : Enc) (pdu : Bytes) (fid pt : Nat) (label : Label)
    (buf : Bytes) (st : EncStatus) (hfid : fid < 256) (hpt : pt < 65536)
    (h : (encap crc es pdu fid pt label buf).res = .ok st) :
    ∃ p, Emitted buf (encap crc es pdu fid pt label buf).buf st.wireLen p ∧
      p.startBit = true ∧
      p.labelType = (checkLabelReUse es label).1.type.code ∧
      p.label = (checkLabelReUse es label).1.bytes ∧
      p.typeField = some pt ∧ p.crc = none ∧
      ((∃ n, st = .completed n) ↔ p.endBit = true) ∧
      ((∃ n ctx, st = .fragmented n ctx) ↔ p.endBit = false) ∧
      (∀ n, st = .completed n → p.fragId = none ∧ p.totalLen = none ∧ p.body = pdu ∧
        n = FIXED_HEADER_LEN + PROTOCOL_LEN + (checkLabelReUse es label).1.len + pdu.length) ∧
      (∀ n ctx, st = .fragmented n ctx →
        p.fragId = some fid ∧
        p.totalLen = some (PROTOCOL_LEN + (checkLabelReUse es label).1.len + pdu.length) ∧
        p.body = pdu.take ctx.pos ∧ ctx.pos < pdu.length ∧
        n = FIRST_FRAG_LEN + (checkLabelReUse es label).1.len + ctx.pos) := by
  have := encap_wire crc es pdu fid pt label buf st h
  rwa [Nat.mod_eq_of_lt hfid, Nat.mod_eq_of_lt hpt] at this

/-- complete packet, 6-byte label: the 20 reported bytes, read by the independent grammar -/
example : (encap crc0 Enc.new smallPdu 1 0x0800 lab6 buf40).res = .ok (.completed 20) ∧
    Spec.parse ((encap crc0 Enc.new smallPdu 1 0x0800 lab6 buf40).buf.take 20)
      = some ⟨true, true, 0, 18, none, none, some 0x0800, [1, 2, 3, 4, 5, 6], smallPdu, none⟩ ∧
    (encap crc0 Enc.new smallPdu 1 0x0800 lab6 buf40).buf.drop 20 = List.replicate 20 0xEE := by
  decide +kernel
/-- the same label sent again: LT = 3 (re-use), no label bytes, 14 bytes -/
example : (encap crc0 esSent smallPdu 1 0x0800 lab6 buf40).res = .ok (.completed 14) ∧
    Spec.parse ((encap crc0 esSent smallPdu 1 0x0800 lab6 buf40).buf.take 14)
      = some ⟨true, true, 3, 12, none, none, some 0x0800, [], smallPdu, none⟩ := by decide +kernel
/-- first fragment, 3-byte label, 15-byte buffer: total length 2 + 3 + 10 = 15 -/
example : (encap crc0 Enc.new smallPdu 1 0x0800 lab3 (List.replicate 15 0)).res
      = .ok (.fragmented 15 ⟨1, 0xDEADBEEF, 5⟩) ∧
    Spec.parse ((encap crc0 Enc.new smallPdu 1 0x0800 lab3 (List.replicate 15 0)).buf.take 15)
      = some ⟨true, false, 1, 13, some 1, some 15, some 0x0800, [7, 8, 9], [10, 11, 12, 13, 14],
          none⟩ := by decide +kernel
/-- a 70 000-byte buffer: the GSE length is clamped to 4095 (repaired defect D1) -/
example : (encap crc0 Enc.new bigPdu 1 0x0800 lab6 (List.replicate 70000 0)).res
    = .ok (.fragmented 4097 ⟨1, 0xDEADBEEF, 4084⟩) := by decide +kernel

/-! ### 2. `encap_frag` -/

/-- C06 for `encap_frag`: intermediate and last fragments. -/
theorem C06_wellformed_encapFrag (pdu : Bytes) (ctx : FragCtx) (buf : Bytes) (st : EncStatus)
    (hfid : ctx.fragId < 256) (hcrc : ctx.crc < 2 ^ 32)
    (h : (encapFrag pdu ctx buf).1 = .ok st) :
    ∃ p, Emitted buf (encapFrag pdu ctx buf).2 st.wireLen p ∧
      p.startBit = false ∧
      p.labelType = LabelType.reuse.code ∧ p.label = [] ∧
      p.fragId = some ctx.fragId ∧ p.totalLen = none ∧ p.typeField = none ∧
      ((∃ n, st = .completed n) ↔ p.endBit = true) ∧
      ((∃ n c, st = .fragmented n c) ↔ p.endBit = false) ∧
      (∀ n, st = .completed n → p.body = pdu.drop ctx.pos ∧ p.crc = some ctx.crc) ∧
      (∀ n c, st = .fragmented n c → p.crc = none ∧
        ∃ k, 1 ≤ k ∧ ctx.pos + k ≤ pdu.length ∧ p.body = (pdu.drop ctx.pos).take k ∧
          c = ⟨ctx.fragId, ctx.crc, (ctx.pos + k) % 65536⟩) := by
  have := encapFrag_wire pdu ctx buf st h
  rwa [Nat.mod_eq_of_lt hfid, Nat.mod_eq_of_lt (show ctx.crc < 4294967296 from hcrc)] at this

/-- intermediate fragment in a 6-byte buffer -/
example : (encapFrag smallPdu ⟨1, 0xDEADBEEF, 5⟩ (List.replicate 6 0)).1
      = .ok (.fragmented 6 ⟨1, 0xDEADBEEF, 8⟩) ∧
    Spec.parse ((encapFrag smallPdu ⟨1, 0xDEADBEEF, 5⟩ (List.replicate 6 0)).2.take 6)
      = some ⟨false, false, 3, 4, some 1, none, none, [], [15, 16, 17], none⟩ := by decide +kernel
/-- last fragment in a 12-byte buffer: 9 bytes, the bytes behind them untouched -/
example : (encapFrag smallPdu ⟨1, 0xDEADBEEF, 8⟩ (List.replicate 12 0xEE)).1 = .ok (.completed 9) ∧
    Spec.parse ((encapFrag smallPdu ⟨1, 0xDEADBEEF, 8⟩ (List.replicate 12 0xEE)).2.take 9)
      = some ⟨false, true, 3, 7, some 1, none, none, [], [18, 19], some 0xDEADBEEF⟩ ∧
    (encapFrag smallPdu ⟨1, 0xDEADBEEF, 8⟩ (List.replicate 12 0xEE)).2.drop 9 = [0xEE, 0xEE, 0xEE] := by
  decide +kernel
/-- 4916 bytes remaining, 70 000-byte buffer: an intermediate fragment of the maximal size, not an
over-long "end" packet (repaired defect D2) -/
example : (encapFrag bigPdu ⟨1, 0xDEADBEEF, 84⟩ (List.replicate 70000 0)).1
    = .ok (.fragmented 4097 ⟨1, 0xDEADBEEF, 4178⟩) := by decide +kernel

/-! ### 3. `encap_ext` -/

/-- C06 for `encap_ext`.  The type field carries the id of the first extension; the body is the
extension chain, the protocol type (unless the last extension is a final mandatory one) and the
PDU bytes; the reported length counts all of them (repaired defect D5: the length returned with a
first fragment used to omit the extensions, and the header counted them twice). -/
theorem C06_wellformed_encapExt (crc : CrcFn) (es : Enc) (pdu : Bytes) (fid pt : Nat) (label : Label)
    (buf : Bytes) (exts : List Ext) (st : EncStatus) (hwf : ExtOk exts)
    (hfid : fid < 256) (hid : ∀ e ∈ exts, e.id < 65536)
    (h : (encapExt crc es pdu fid pt label buf exts).res = .ok st) :
    ∃ p, Emitted buf (encapExt crc es pdu fid pt label buf exts).buf st.wireLen p ∧
      p.startBit = true ∧
      p.labelType = (checkLabelReUse es label).1.type.code ∧
      p.label = (checkLabelReUse es label).1.bytes ∧
      (∃ e0, exts.head? = some e0 ∧ p.typeField = some e0.id) ∧ p.crc = none ∧
      ((∃ n, st = .completed n) ↔ p.endBit = true) ∧
      ((∃ n ctx, st = .fragmented n ctx) ↔ p.endBit = false) ∧
      (∀ n, st = .completed n → p.fragId = none ∧ p.totalLen = none ∧
        p.body = extBytes pt exts ++ pdu ∧
        n = FIXED_HEADER_LEN + PROTOCOL_LEN + (checkLabelReUse es label).1.len
              + (extBytes pt exts).length + pdu.length) ∧
      (∀ n ctx, st = .fragmented n ctx →
        p.fragId = some fid ∧
        p.totalLen = some (PROTOCOL_LEN + (checkLabelReUse es label).1.len + pdu.length) ∧
        p.body = extBytes pt exts ++ pdu.take ctx.pos ∧ ctx.pos < pdu.length ∧
        n = FIRST_FRAG_LEN + (checkLabelReUse es label).1.len + (extBytes pt exts).length
              + ctx.pos) := by
  obtain ⟨p, h1, h2, h3, h4, ⟨e0, he0, hty⟩, h5⟩ := encapExt_wire crc es pdu fid pt label buf exts st hwf h
  rw [Nat.mod_eq_of_lt hfid] at h5
  rw [Nat.mod_eq_of_lt (hid e0 (List.mem_of_mem_head? he0))] at hty
  exact ⟨p, h1, h2, h3, h4, ⟨e0, he0, hty⟩, h5⟩

example : ExtOk [ext4] ∧ ∀ e ∈ [ext4], e.id < 65536 := by
  refine ⟨fun e he => ?_, fun e he => ?_⟩ <;>
    (simp only [List.mem_cons, List.not_mem_nil, or_false] at he; subst he; decide)
/-- the input of defect D5: 100-byte PDU, 50-byte buffer, one 4-byte extension: 50 bytes reported,
50 bytes on the wire (GSE length 48), 34 PDU bytes behind extension data and protocol type -/
example : (encapExt crc0 Enc.new pdu100 9 0x0800 lab3 buf50 [ext4]).res
      = .ok (.fragmented 50 ⟨9, 0xDEADBEEF, 34⟩) ∧
    Spec.parse ((encapExt crc0 Enc.new pdu100 9 0x0800 lab3 buf50 [ext4]).buf.take 50)
      = some ⟨true, false, 1, 48, some 9, some 105, some 0x0345, [7, 8, 9],
          [0xB1, 0xB2, 0xB3, 0xB4, 0x08, 0x00] ++ List.replicate 34 0x55, none⟩ := by
  decide +kernel
/-- complete packet, optional extension followed by a final mandatory extension (no protocol type
behind the chain) -/
example : (encapExt crc0 Enc.new smallPdu 1 0x0081 lab6 buf40 [ext2, extM]).res
      = .ok (.completed 27) ∧
    Spec.parse ((encapExt crc0 Enc.new smallPdu 1 0x0081 lab6 buf40 [ext2, extM]).buf.take 27)
      = some ⟨true, true, 0, 25, none, none, some 0x0234, [1, 2, 3, 4, 5, 6],
          [0xA1, 0xA2, 0x00, 0x81, 1, 2, 3] ++ smallPdu, none⟩ := by decide +kernel

/-! ### 4. Consequences: length bound, never the padding pattern -/

/-- The length returned by any of the three calls is at most 4095 + 2 and inside the buffer. -/
theorem C06_gseLen_bound :
    (∀ (crc : CrcFn) (es : Enc) (pdu : Bytes) (fid pt : Nat) (label : Label) (buf : Bytes)
        (st : EncStatus), (encap crc es pdu fid pt label buf).res = .ok st →
        st.wireLen ≤ GSE_LEN_MAX + FIXED_HEADER_LEN ∧ st.wireLen ≤ buf.length) ∧
    (∀ (pdu : Bytes) (ctx : FragCtx) (buf : Bytes) (st : EncStatus),
        (encapFrag pdu ctx buf).1 = .ok st →
        st.wireLen ≤ GSE_LEN_MAX + FIXED_HEADER_LEN ∧ st.wireLen ≤ buf.length) ∧
    (∀ (crc : CrcFn) (es : Enc) (pdu : Bytes) (fid pt : Nat) (label : Label) (buf : Bytes)
        (exts : List Ext) (st : EncStatus), ExtOk exts →
        (encapExt crc es pdu fid pt label buf exts).res = .ok st →
        st.wireLen ≤ GSE_LEN_MAX + FIXED_HEADER_LEN ∧ st.wireLen ≤ buf.length) := by
  refine ⟨fun crc es pdu fid pt label buf st h => ?_, fun pdu ctx buf st h => ?_,
    fun crc es pdu fid pt label buf exts st hwf h => ?_⟩
  · obtain ⟨p, ⟨h1, _, _, _, h5, h6⟩, _⟩ := encap_wire crc es pdu fid pt label buf st h
    exact ⟨by omega, h1⟩
  · obtain ⟨p, ⟨h1, _, _, _, h5, h6⟩, _⟩ := encapFrag_wire pdu ctx buf st h
    exact ⟨by omega, h1⟩
  · obtain ⟨p, ⟨h1, _, _, _, h5, h6⟩, _⟩ := encapExt_wire crc es pdu fid pt label buf exts st hwf h
    exact ⟨by omega, h1⟩

/-- Whatever was emitted does not start with the padding pattern: the first nibble (S, E, LT) of
the output buffer is not `0000`.  (For `encap_frag` this is because intermediate fragments carry
label type 3.) -/
theorem C06_never_padding :
    (∀ (crc : CrcFn) (es : Enc) (pdu : Bytes) (fid pt : Nat) (label : Label) (buf : Bytes)
        (st : EncStatus), (encap crc es pdu fid pt label buf).res = .ok st →
        ∃ b0, (encap crc es pdu fid pt label buf).buf[0]? = some b0 ∧ b0.toNat / 16 ≠ 0) ∧
    (∀ (pdu : Bytes) (ctx : FragCtx) (buf : Bytes) (st : EncStatus),
        (encapFrag pdu ctx buf).1 = .ok st →
        ∃ b0, (encapFrag pdu ctx buf).2[0]? = some b0 ∧ b0.toNat / 16 ≠ 0) ∧
    (∀ (crc : CrcFn) (es : Enc) (pdu : Bytes) (fid pt : Nat) (label : Label) (buf : Bytes)
        (exts : List Ext) (st : EncStatus), ExtOk exts →
        (encapExt crc es pdu fid pt label buf exts).res = .ok st →
        ∃ b0, (encapExt crc es pdu fid pt label buf exts).buf[0]? = some b0 ∧
          b0.toNat / 16 ≠ 0) := by
  have key : ∀ {buf buf' : Bytes} {n : Nat} {p : WirePkt}, Emitted buf buf' n p →
      ∃ b0, buf'[0]? = some b0 ∧ b0.toNat / 16 ≠ 0 := by
    intro buf buf' n p ⟨_, _, _, hpar, _, _⟩
    obtain ⟨b0, rest, hb, hnz⟩ := parse_some_first_nibble hpar
    refine ⟨b0, ?_, hnz⟩
    have := congrArg (fun l => l[0]?) hb
    simp only [List.getElem?_take, List.getElem?_cons_zero] at this
    split at this
    · exact this
    · cases this
  refine ⟨fun crc es pdu fid pt label buf st h => ?_, fun pdu ctx buf st h => ?_,
    fun crc es pdu fid pt label buf exts st hwf h => ?_⟩
  · obtain ⟨p, hE, _⟩ := encap_wire crc es pdu fid pt label buf st h
    exact key hE
  · obtain ⟨p, hE, _⟩ := encapFrag_wire pdu ctx buf st h
    exact key hE
  · obtain ⟨p, hE, _⟩ := encapExt_wire crc es pdu fid pt label buf exts st hwf h
    exact key hE

/-- intermediate fragment: first byte 0x30 -/
example : (encapFrag smallPdu ⟨1, 0xDEADBEEF, 5⟩ (List.replicate 6 0)).2[0]? = some 0x30 := by
  decide +kernel
/-- the grammar itself refuses the padding pattern, so `Emitted` could not hold for it -/
example : Spec.parse [0x00, 0x03, 1, 2, 3] = none := by decide

end Gse

#print axioms Gse.C06_wellformed_encap
#print axioms Gse.C06_wellformed_encapFrag
#print axioms Gse.C06_wellformed_encapExt
#print axioms Gse.C06_gseLen_bound
#print axioms Gse.C06_never_padding
