/-
C14: the 16-bit fixed header codec is a bijection on non-padding headers.

Decoder side (all 65 536 words): exhaustive kernel evaluation of `Gse.readHeader` /
`Gse.genHeader`, in sixteen chunks of 4096 words.  Encoder side (every kind, label type and
*every* length, not only 0..=4095): symbolic lemmas from `Lemmas/Header.lean`.  Both refer to the
generated constants only through the `Gen.*` names inside `readHeader` / `genHeader`, so a changed
constant re-checks everything.
-/
import GseVerif.Model.Header
import GseVerif.Lemmas.Finite
import GseVerif.Lemmas.Header

set_option maxRecDepth 100000

namespace Gse
open Gen

/-! ### Decoder side: all 65 536 words -/

/-- Everything C14 says about one header word, as a Bool. -/
def c14WordOk (w : Nat) : Bool :=
  match readHeader w with
  | .panic => false
  | .err _ => false
  | .ok none => w &&& 0xF000 == 0
  | .ok (some (len, k, lt)) =>
      (w &&& 0xF000 != 0) && (genHeader k lt len == w) && decide (len ≤ 4095)

/-- The 4096 words whose top nibble is `i`.  (One `decide +kernel` over all 65 536 words also
works but needs 4 GB; sixteen chunks need 0.7 GB and are checked independently.) -/
def c14ChunkOk (i : Nat) : Bool := allBelow 4096 (fun j => c14WordOk (4096 * i + j))

theorem c14_chunk_0 : c14ChunkOk 0 = true := by decide +kernel
theorem c14_chunk_1 : c14ChunkOk 1 = true := by decide +kernel
theorem c14_chunk_2 : c14ChunkOk 2 = true := by decide +kernel
theorem c14_chunk_3 : c14ChunkOk 3 = true := by decide +kernel
theorem c14_chunk_4 : c14ChunkOk 4 = true := by decide +kernel
theorem c14_chunk_5 : c14ChunkOk 5 = true := by decide +kernel
theorem c14_chunk_6 : c14ChunkOk 6 = true := by decide +kernel
theorem c14_chunk_7 : c14ChunkOk 7 = true := by decide +kernel
theorem c14_chunk_8 : c14ChunkOk 8 = true := by decide +kernel
theorem c14_chunk_9 : c14ChunkOk 9 = true := by decide +kernel
theorem c14_chunk_10 : c14ChunkOk 10 = true := by decide +kernel
theorem c14_chunk_11 : c14ChunkOk 11 = true := by decide +kernel
theorem c14_chunk_12 : c14ChunkOk 12 = true := by decide +kernel
theorem c14_chunk_13 : c14ChunkOk 13 = true := by decide +kernel
theorem c14_chunk_14 : c14ChunkOk 14 = true := by decide +kernel
theorem c14_chunk_15 : c14ChunkOk 15 = true := by decide +kernel

theorem c14_chunk : ∀ i, i < 16 → c14ChunkOk i = true
  | 0, _ => c14_chunk_0
  | 1, _ => c14_chunk_1
  | 2, _ => c14_chunk_2
  | 3, _ => c14_chunk_3
  | 4, _ => c14_chunk_4
  | 5, _ => c14_chunk_5
  | 6, _ => c14_chunk_6
  | 7, _ => c14_chunk_7
  | 8, _ => c14_chunk_8
  | 9, _ => c14_chunk_9
  | 10, _ => c14_chunk_10
  | 11, _ => c14_chunk_11
  | 12, _ => c14_chunk_12
  | 13, _ => c14_chunk_13
  | 14, _ => c14_chunk_14
  | 15, _ => c14_chunk_15
  | n + 16, h => absurd h (by omega)

theorem c14_word (w : Nat) (h : w < 65536) : c14WordOk w = true := by
  have hq : w / 4096 < 16 := by omega
  have hw : 4096 * (w / 4096) + w % 4096 = w := by omega
  have := allBelow_spec (c14_chunk (w / 4096) hq) (w % 4096) (by omega)
  rwa [hw] at this

/-- Reading any 16-bit word never panics (and never errors). -/
theorem C14_read_total (w : Nat) (h : w < 65536) : readHeader w ≠ .panic := by
  have := c14_word w h
  unfold c14WordOk at this
  intro hp
  rw [hp] at this
  exact Bool.false_ne_true this

example : readHeader 0xFFFF ≠ .panic := C14_read_total 0xFFFF (by decide)

/-- … and never errors: it always returns `Ok`. -/
theorem C14_read_ok (w : Nat) (h : w < 65536) : ∃ r, readHeader w = .ok r := by
  have := c14_word w h
  unfold c14WordOk at this
  split at this
  · exact absurd this Bool.false_ne_true
  · exact absurd this Bool.false_ne_true
  · exact ⟨_, ‹_›⟩
  · exact ⟨_, ‹_›⟩

example : readHeader 0xD123 = .ok (some (0x123, .complete, .three)) := by decide

/-- No packet exactly for the padding pattern: start = 0, end = 0, label type = 00. -/
theorem C14_none_iff (w : Nat) (h : w < 65536) :
    readHeader w = .ok none ↔ w &&& 0xF000 = 0 := by
  have := c14_word w h
  unfold c14WordOk at this
  split at this
  · exact absurd this Bool.false_ne_true
  · exact absurd this Bool.false_ne_true
  · rename_i hr
    simp only [beq_iff_eq] at this
    simp [hr, this]
  · rename_i len k lt hr
    simp only [Bool.and_eq_true, bne_iff_ne, ne_eq] at this
    simp [hr, this.1.1]

example : readHeader 0x0ABC = .ok none ∧ 0x0ABC &&& 0xF000 = 0 := by decide
example : readHeader 0x1ABC ≠ .ok none ∧ 0x1ABC &&& 0xF000 ≠ 0 := by decide

/-- The same, with the padding pattern spelled with the generated constants:
S = E = 0 (`INTERMEDIATE_PKT`) and label type 00 (`LABEL_6_B`). -/
theorem C14_none_iff_fields (w : Nat) (h : w < 65536) :
    readHeader w = .ok none ↔
      (w &&& START_END_MASK = INTERMEDIATE_PKT ∧ w &&& LABEL_TYPE_MASK = LABEL_6_B) := by
  rw [C14_none_iff w h]
  have : (0xF000 : Nat) = START_END_MASK ||| LABEL_TYPE_MASK := by decide
  rw [this, Nat.and_or_distrib_left, Nat.or_eq_zero_iff]
  simp

example : readHeader 0x0FFF = .ok none ∧
    0x0FFF &&& START_END_MASK = INTERMEDIATE_PKT ∧ 0x0FFF &&& LABEL_TYPE_MASK = LABEL_6_B := by
  decide

/-- Re-encoding what was decoded reproduces the word. -/
theorem C14_read_gen (w : Nat) (h : w < 65536) (len : Nat) (k : PktType) (lt : LabelType) :
    readHeader w = .ok (some (len, k, lt)) → genHeader k lt len = w ∧ len ≤ 4095 := by
  intro hr
  have := c14_word w h
  unfold c14WordOk at this
  rw [hr] at this
  simp only [Bool.and_eq_true, beq_iff_eq, decide_eq_true_eq] at this
  exact ⟨this.1.2, this.2⟩

example : readHeader 0x7FFF = .ok (some (0xFFF, .end_, .reuse)) ∧
    genHeader .end_ .reuse 0xFFF = 0x7FFF := by decide

/-- The guard `w < 65536` of `C14_read_gen` is needed (the Rust argument is a `u16`): the model
on a wider `Nat` decodes, but re-encoding gives the low 16 bits only. -/
example : readHeader 0x1D123 = .ok (some (0x123, .complete, .three)) ∧
    genHeader .complete .three 0x123 = 0xD123 := by decide

/-! ### Encoder side: every (kind, label type) and every length

These hold for every `len : Nat` (not only `len ≤ 4095`), so they are proved symbolically in
`Lemmas/Header.lean` (case analysis on the 4 × 4 (kind, label type) pairs, the length stays a
variable); the quantifier "4 × 4 × 4096 triples" is the instance `len ≤ GSE_LEN_MAX`. -/

/-- Decoding an encoded non-padding header returns the same triple. -/
theorem C14_gen_read (k : PktType) (lt : LabelType) (len : Nat) (hl : len ≤ Gen.GSE_LEN_MAX)
    (hp : ¬ (k = .inter ∧ lt = .six)) :
    readHeader (genHeader k lt len) = .ok (some (len, k, lt)) :=
  readHeader_genHeader k lt len (by simpa using hl) hp

example : readHeader (genHeader .first .broadcast 1234) = .ok (some (1234, .first, .broadcast)) :=
  C14_gen_read .first .broadcast 1234 (by decide) (by decide)

/-- The guard `len ≤ GSE_LEN_MAX` of `C14_gen_read` is needed: a longer length is truncated. -/
example : readHeader (genHeader .complete .six 4096) = .ok (some (0, .complete, .six)) := by decide

/-- The excluded pair really is the padding pattern: it reads back as "no packet". -/
theorem C14_gen_read_padding (len : Nat) :
    readHeader (genHeader .inter .six len) = .ok none :=
  readHeader_genHeader_padding len

/-- The encoder always produces a 16-bit word: the mask keeps 12 bits of any length. -/
theorem C14_gen_lt (k : PktType) (lt : LabelType) (len : Nat) : genHeader k lt len < 65536 :=
  genHeader_lt k lt len

/-- Only the low 12 bits of the length matter (`gse_len as u16 & GSE_LEN_MASK`). -/
theorem C14_gen_mask (k : PktType) (lt : LabelType) (len : Nat) :
    genHeader k lt len = genHeader k lt (len % 4096) :=
  genHeader_mod k lt len

example : genHeader .end_ .three (4096 + 5) = genHeader .end_ .three 5 := by decide

/-- The encoder never emits a word that reads as padding, unless asked for (inter, six). -/
theorem C14_gen_nonpadding (k : PktType) (lt : LabelType) (len : Nat)
    (hp : ¬ (k = .inter ∧ lt = .six)) : genHeader k lt len &&& 0xF000 ≠ 0 := by
  rw [genHeader_and_hi]; exact hi_ne_zero k lt hp

example : genHeader .inter .reuse 0 &&& 0xF000 ≠ 0 := C14_gen_nonpadding _ _ _ (by decide)

/-- In particular label re-use is never padding, whatever the packet kind. -/
theorem C14_gen_nonpadding_reuse (k : PktType) (len : Nat) :
    genHeader k .reuse len &&& 0xF000 ≠ 0 :=
  C14_gen_nonpadding k .reuse len (by simp)

/-- Together: on 16-bit words outside the padding class and on non-padding triples with
`len ≤ 4095`, `readHeader` and `genHeader` are mutually inverse bijections. -/
theorem C14_bijection :
    (∀ w, w < 65536 → w &&& 0xF000 ≠ 0 →
      ∃ len k lt, readHeader w = .ok (some (len, k, lt)) ∧ len ≤ Gen.GSE_LEN_MAX ∧
        ¬ (k = .inter ∧ lt = .six) ∧ genHeader k lt len = w) ∧
    (∀ k lt len, len ≤ Gen.GSE_LEN_MAX → ¬ (k = .inter ∧ lt = .six) →
      genHeader k lt len < 65536 ∧ genHeader k lt len &&& 0xF000 ≠ 0 ∧
        readHeader (genHeader k lt len) = .ok (some (len, k, lt))) := by
  refine ⟨fun w hw hn => ?_, fun k lt len hl hp =>
    ⟨C14_gen_lt k lt len, C14_gen_nonpadding k lt len hp, C14_gen_read k lt len hl hp⟩⟩
  obtain ⟨r, hr⟩ := C14_read_ok w hw
  match r, hr with
  | none, hr => exact absurd ((C14_none_iff w hw).1 hr) hn
  | some (len, k, lt), hr =>
    obtain ⟨hg, hl⟩ := C14_read_gen w hw len k lt hr
    refine ⟨len, k, lt, hr, by simpa using hl, fun hp => ?_, hg⟩
    obtain ⟨rfl, rfl⟩ := hp
    rw [← hg, C14_gen_read_padding] at hr
    cases hr

example : 0xA00C &&& 0xF000 ≠ 0 ∧ readHeader 0xA00C = .ok (some (12, .first, .broadcast)) := by
  decide

#print axioms C14_read_total
#print axioms C14_read_ok
#print axioms C14_none_iff
#print axioms C14_none_iff_fields
#print axioms C14_read_gen
#print axioms C14_gen_read
#print axioms C14_gen_read_padding
#print axioms C14_gen_lt
#print axioms C14_gen_mask
#print axioms C14_gen_nonpadding
#print axioms C14_gen_nonpadding_reuse
#print axioms C14_bijection

end Gse
