/-
Property C08 — "Storage buffers are conserved: never leaked, never duplicated".

At every point of every history, each storage buffer provisioned to a decapsulator is in exactly one
place: available for new PDUs (free list), attached to one in-progress reassembly (a slot), or owned
by the caller after being handed out in a completed result or in an error value.  Every `decap`
call that ends in an error returns any buffer it took.

Buffers are identified by the ghost identity `Storage.id` (Model/Memory.lean: Rust moves the box, the
model moves the pair).  Vocabulary (Lemmas/DecapInv.lean):
* `Dec.owned ds` — ids of the free list followed by ids in the slots (`Mem.allStorages`);
* `handedOut r` — the id carried by `Ok(CompletedPkt(s, _))`, `Err(ErrorMemory(StorageOverflow(s)))`,
  `Err(ErrorMemory(BufferTooSmall(s)))`; nothing otherwise.
All statements are about multisets of ids (`List.Perm`), for every CRC calculator, every extension
manager, every byte buffer and every state satisfying `Dec.Inv` (every reachable state,
`C05_inv_reachable`).
-/
import GseVerif.Lemmas.DecapInv

namespace Gse
open Gen DFix

/-! ### Vocabulary -/

theorem C08_owned_def (ds : Dec) :
    ds.owned = (ds.mem.storages ++ slotStorages ds.mem.frags).map (·.id) := rfl

theorem C08_handedOut_def (s : Storage) (m : Meta) :
    handedOut (.ok (.completed s m)) = [s.id] ∧
    handedOut (.err (.memory (.storageOverflow s))) = [s.id] ∧
    handedOut (.err (.memory (.bufferTooSmall s))) = [s.id] ∧
    handedOut (.ok (.fragmented m)) = [] ∧ handedOut (.ok .padding) = [] ∧
    handedOut (.err .crc) = [] ∧ handedOut (.err (.memory .undefinedId)) = [] :=
  ⟨rfl, rfl, rfl, rfl, rfl, rfl, rfl⟩

/-- ids handed to the decapsulator by a public call -/
def DecOp.given : DecOp → List Nat
  | .provision s => [s.id]
  | _ => []

/-- ids of the storages carried by a memory error -/
def MemErr.ids (e : MemErr) : List Nat := e.storages.map (·.id)

/-- ids handed to the caller by the result of a public call -/
def Dec.handed (crc : CrcFn) (mgr : MgrFn) (ds : Dec) : DecOp → List Nat
  | .provision s =>
    match (ds.mem.provision s).1 with
    | .err e => e.ids
    | _ => []
  | .newPdu =>
    match ds.mem.newPdu.1 with
    | .ok st => [st.id]
    | .err e => e.ids
    | .panic => []
  | .reset => []
  | .decap buf => handedOut (decap crc mgr ds buf).res

/-- all ids handed to the caller along a history, in order -/
def Dec.handedAll (crc : CrcFn) (mgr : MgrFn) : Dec → List DecOp → List Nat
  | _, [] => []
  | ds, op :: ops => ds.handed crc mgr op ++ (ds.step crc mgr op).handedAll crc mgr ops

/-- all ids given in along a history (accepted or refused provisions), in order -/
def givenAll (ops : List DecOp) : List Nat := (ops.map DecOp.given).flatten

/-! ### 1. One `decap` call -/

/-- What the decapsulator owns after the call plus what the result hands to the caller is what it
owned before — for every buffer and every outcome, `Ok` or `Err`. -/
theorem C08_decap_step (crc : CrcFn) (mgr : MgrFn) (ds : Dec) (buf : Bytes) (h : ds.Inv) :
    ((decap crc mgr ds buf).st.owned ++ handedOut (decap crc mgr ds buf).res).Perm ds.owned := by
  obtain ⟨_, hg, -⟩ := decap_good crc mgr ds buf ((Dec.inv_iff ds).mp h)
  exact hg.perm

-- a complete packet takes the free buffer 1 and hands it out; buffers 2, 3 stay in their slots
example : d2.owned = [1, 2, 3] ∧ (decap zcrc simpleMgr d2 pComplete).st.owned = [2, 3] ∧
    handedOut (decap zcrc simpleMgr d2 pComplete).res = [1] := by decide
/-- the fixture `d2` satisfies the invariant (it is reachable) -/
theorem C08_d2_inv : d2.Inv :=
  Dec.inv_run zcrc simpleMgr (Dec.inv_new 2 8)
    [.provision (st8 1), .provision (st8 2), .provision (st8 3), .decap (pFirst 1),
     .decap (pFirst 2)]

example : ((decap zcrc simpleMgr d2 pComplete).st.owned ++
    handedOut (decap zcrc simpleMgr d2 pComplete).res).Perm d2.owned :=
  C08_decap_step _ _ _ _ C08_d2_inv

/-- The only place where a storage could be dropped is a refused `save_frag` (the callee drops the
refused pair, `C17_saveFrag_refused_drops`).  Inside `decap` this never happens: the slot was just
emptied by `new_frag` / `take_frag`, so `ErrorMemory(MemoryCorrupted)` is never returned. -/
theorem C08_save_never_refused (crc : CrcFn) (mgr : MgrFn) (ds : Dec) (buf : Bytes) (h : ds.Inv) :
    (decap crc mgr ds buf).res ≠ .err (.memory .memoryCorrupted) := by
  obtain ⟨_, hg, -⟩ := decap_good crc mgr ds buf ((Dec.inv_iff ds).mp h)
  exact hg.notCorrupt

-- a first fragment of id 3 on the slot occupied by id 1: the slot is emptied, then saved into
example : (decap zcrc simpleMgr d2 (pFirst 3)).res ≠ .err (.memory .memoryCorrupted) :=
  C08_save_never_refused _ _ _ _ C08_d2_inv
example : (decap zcrc simpleMgr d2 (pFirst 3)).res = .ok (.fragmented ⟨0, 0x0800, .broadcast, []⟩) := by
  decide

/-- Every `decap` call that ends in an error returns any buffer it took: what is owned afterwards,
plus the buffer carried by the error value if it carries one, is what was owned before. -/
theorem C08_error_returns (crc : CrcFn) (mgr : MgrFn) (ds : Dec) (buf : Bytes) (h : ds.Inv)
    (e : DecErr) (he : (decap crc mgr ds buf).res = .err e) :
    ((decap crc mgr ds buf).st.owned ++ handedOut (.err e)).Perm ds.owned := by
  have := C08_decap_step crc mgr ds buf h
  rwa [he] at this

/-- … in particular, when the error value carries no buffer, nothing left the decapsulator -/
theorem C08_error_keeps_all (crc : CrcFn) (mgr : MgrFn) (ds : Dec) (buf : Bytes) (h : ds.Inv)
    (e : DecErr) (he : (decap crc mgr ds buf).res = .err e)
    (hs : ∀ s, e ≠ .memory (.storageOverflow s) ∧ e ≠ .memory (.bufferTooSmall s)) :
    (decap crc mgr ds buf).st.owned.Perm ds.owned := by
  have := C08_error_returns crc mgr ds buf h e he
  have hh : handedOut (.err e) = [] := by
    cases e <;> try rfl
    rename_i me
    cases me <;> first | rfl | exact absurd rfl (hs _).1 | exact absurd rfl (hs _).2
  rwa [hh, List.append_nil] at this

/-- an intermediate fragment of id 1 with 6 payload bytes: does not fit in what is left of buffer 3 -/
def pInterBig : Bytes := [0x30, 0x07, 1, 1, 2, 3, 4, 5, 6]

-- the reassembly of id 1 is abandoned with `ErrorSizePduBuffer`; its buffer 3 is back in the free list
example : (decap zcrc simpleMgr d2 pInterBig).res = .err .sizePduBuffer ∧
    (decap zcrc simpleMgr d2 pInterBig).st.owned = [3, 1, 2] ∧ d2.owned = [1, 2, 3] := by decide
example : (decap zcrc simpleMgr d2 pInterBig).st.owned.Perm d2.owned :=
  C08_error_keeps_all _ _ _ _ C08_d2_inv .sizePduBuffer (by decide) (by intro s; simp)

/-! ### 2. `provision_storage` and `new_pdu` -/

/-- accepted: the buffer is owned afterwards; refused (`StorageOverflow`, `BufferTooSmall`): the
error value hands the very buffer back -/
theorem C08_provision_step (ds : Dec) (s : Storage) (h : ds.Inv) :
    ((⟨(ds.mem.provision s).2, ds.last⟩ : Dec).owned ++
      (match (ds.mem.provision s).1 with | .err e => e.ids | _ => [])).Perm
      (ds.owned ++ [s.id]) := by
  rcases ((Dec.inv_iff ds).mp h).provision s with ⟨m', hp, -, -, -, hids⟩ | ⟨e, hp, he⟩
  · simp only [hp, Dec.owned, hids, List.append_nil]
    exact List.perm_append_singleton _ _ |>.symm
  · rcases he with rfl | rfl <;> simp [hp, Dec.owned, MemErr.ids, MemErr.storages]

example : ((⟨(d2.mem.provision (st8 9)).2, d2.last⟩ : Dec).owned) = [9, 1, 2, 3] := by decide
-- refused because too small: handed back in the error
example : (d2.mem.provision ⟨9, [0]⟩).1 = .err (.bufferTooSmall ⟨9, [0]⟩) ∧
    (⟨(d2.mem.provision ⟨9, [0]⟩).2, d2.last⟩ : Dec).owned = [1, 2, 3] := by decide

/-- `new_pdu` hands out the top of the free list, or nothing -/
theorem C08_newPdu_step (ds : Dec) (h : ds.Inv) :
    ((⟨ds.mem.newPdu.2, ds.last⟩ : Dec).owned ++
      (match ds.mem.newPdu.1 with | .ok st => [st.id] | .err e => e.ids | .panic => [])).Perm
      ds.owned := by
  match hn : ds.mem.newPdu with
  | (.ok st, m1) => simpa [Dec.owned] using (((Dec.inv_iff ds).mp h).newPdu_ok hn).2.2.2
  | (.err e, m1) =>
    obtain ⟨rfl, rfl⟩ := Mem.newPdu_err hn
    simp [Dec.owned, MemErr.ids, MemErr.storages]
  | (.panic, m1) => exact (Mem.newPdu_panic hn).elim

example : d2.mem.newPdu.1 = .ok (st8 1) ∧ (⟨d2.mem.newPdu.2, d2.last⟩ : Dec).owned = [2, 3] := by
  decide

/-- every public operation: owned afterwards ++ handed out = owned before ++ given in -/
theorem C08_step (crc : CrcFn) (mgr : MgrFn) (ds : Dec) (op : DecOp) (h : ds.Inv) :
    ((ds.step crc mgr op).owned ++ ds.handed crc mgr op).Perm (ds.owned ++ op.given) := by
  cases op with
  | provision s => exact C08_provision_step ds s h
  | newPdu => simpa [DecOp.given, Dec.step, Dec.handed] using C08_newPdu_step ds h
  | reset => simp [Dec.step, Dec.handed, DecOp.given, Dec.owned]
  | decap buf => simpa [DecOp.given, Dec.step, Dec.handed] using C08_decap_step crc mgr ds buf h

example : ((d2.step zcrc simpleMgr (.decap pComplete)).owned ++
    d2.handed zcrc simpleMgr (.decap pComplete)).Perm (d2.owned ++ (DecOp.decap pComplete).given) :=
  C08_step _ _ _ _ C08_d2_inv

/-! ### 3. Histories -/

/-- Along every history of public operations: what the decapsulator owns at the end plus everything
handed out so far is everything it owned at the start plus everything given in. -/
theorem C08_history_from (crc : CrcFn) (mgr : MgrFn) (ds : Dec) (ops : List DecOp) (h : ds.Inv) :
    ((ds.run crc mgr ops).owned ++ ds.handedAll crc mgr ops).Perm (ds.owned ++ givenAll ops) := by
  induction ops generalizing ds with
  | nil => simp [Dec.run, Dec.handedAll, givenAll]
  | cons op ops ih =>
    have h1 := C08_step crc mgr ds op h
    have h2 := ih (ds.step crc mgr op) (Dec.inv_step crc mgr h op)
    simp only [Dec.run, List.foldl_cons, Dec.handedAll, givenAll, List.map_cons,
      List.flatten_cons] at h2 ⊢
    -- owned' ++ (handed ++ rest) ~ (owned' ++ rest) ++ handed ~ (owned1 ++ givenRest) ++ handed
    --   ~ (owned1 ++ handed) ++ givenRest ~ (owned ++ given) ++ givenRest
    have e1 : ((List.foldl (Dec.step crc mgr) (ds.step crc mgr op) ops).owned ++
        (ds.handed crc mgr op ++ (ds.step crc mgr op).handedAll crc mgr ops)).Perm
        (((List.foldl (Dec.step crc mgr) (ds.step crc mgr op) ops).owned ++
          (ds.step crc mgr op).handedAll crc mgr ops) ++ ds.handed crc mgr op) := by
      rw [List.append_assoc]
      exact List.Perm.append_left _ List.perm_append_comm
    have e2 := (h2.append_right (ds.handed crc mgr op))
    have e3 : (((ds.step crc mgr op).owned ++ (List.map DecOp.given ops).flatten) ++
        ds.handed crc mgr op).Perm
        (((ds.step crc mgr op).owned ++ ds.handed crc mgr op) ++
          (List.map DecOp.given ops).flatten) := by
      rw [List.append_assoc, List.append_assoc]
      exact List.Perm.append_left _ List.perm_append_comm
    have e4 := h1.append_right (List.map DecOp.given ops).flatten
    refine e1.trans (e2.trans (e3.trans (e4.trans ?_)))
    rw [List.append_assoc]

/-- From a fresh decapsulator: owned at the end ++ everything handed out so far is exactly the
multiset of ids given in by (accepted or refused) provisions — nothing leaked, nothing invented. -/
theorem C08_history (crc : CrcFn) (mgr : MgrFn) (n sz : Nat) (ops : List DecOp) :
    (((Dec.new n sz).run crc mgr ops).owned ++ (Dec.new n sz).handedAll crc mgr ops).Perm
      (givenAll ops) := by
  have := C08_history_from crc mgr (Dec.new n sz) ops (Dec.inv_new n sz)
  have h0 : (Dec.new n sz).owned = [] := by
    simp [Dec.owned, Mem.ids, Dec.new, C17_new_owns_nothing]
  rwa [h0, List.nil_append] at this

/-- a history on the 2-slot fixture: three provisions, two first fragments, an intermediate and the
end of id 1 (handing out buffer 3), a complete packet (handing out buffer 1), a refused provision
of a too-small buffer 9 -/
def C08.hist : List DecOp :=
  [.provision (st8 1), .provision (st8 2), .provision (st8 3), .decap (pFirst 1),
   .decap (pFirst 2), .decap (pInter 1), .decap (pEnd 1), .decap pComplete,
   .provision ⟨9, [0]⟩]

example : ((Dec.new 2 8).run zcrc simpleMgr C08.hist).owned = [2] ∧
    (Dec.new 2 8).handedAll zcrc simpleMgr C08.hist = [3, 1, 9] ∧
    givenAll C08.hist = [1, 2, 3, 9] := by decide

/-- Never duplicated: if the ids given in are pairwise distinct, then at the end of the history no
id occurs twice among the owned buffers, none occurs twice among the buffers handed out, and no
buffer is both owned and in the caller's hands.  (The history is arbitrary, so this holds at every
point of every history: see `C08_nodup_prefix`.) -/
theorem C08_nodup (crc : CrcFn) (mgr : MgrFn) (n sz : Nat) (ops : List DecOp)
    (hd : (givenAll ops).Nodup) :
    ((Dec.new n sz).run crc mgr ops).owned.Nodup ∧
    ((Dec.new n sz).handedAll crc mgr ops).Nodup ∧
    ∀ i, i ∈ ((Dec.new n sz).run crc mgr ops).owned →
      i ∉ (Dec.new n sz).handedAll crc mgr ops := by
  have hp := C08_history crc mgr n sz ops
  have hn := hp.nodup_iff.mpr hd
  rw [List.nodup_append] at hn
  exact ⟨hn.1, hn.2.1, fun i hi hj => hn.2.2 i hi i hj rfl⟩

example : (givenAll C08.hist).Nodup := by decide

/-- the same at every intermediate point of a history -/
theorem C08_nodup_prefix (crc : CrcFn) (mgr : MgrFn) (n sz : Nat) (ops rest : List DecOp)
    (hd : (givenAll (ops ++ rest)).Nodup) :
    ((Dec.new n sz).run crc mgr ops).owned.Nodup ∧
    ∀ i, i ∈ ((Dec.new n sz).run crc mgr ops).owned →
      i ∉ (Dec.new n sz).handedAll crc mgr ops := by
  have hd' : (givenAll ops).Nodup := by
    simp only [givenAll, List.map_append, List.flatten_append] at hd
    exact (List.nodup_append.mp hd).1
  have := C08_nodup crc mgr n sz ops hd'
  exact ⟨this.1, this.2.2⟩

example : (givenAll (C08.hist.take 5 ++ C08.hist.drop 5)).Nodup := by decide

/-! ### 4. A caller that re-provisions buffers it was handed (linear use)

`C08_nodup` asks for pairwise distinct given ids, which excludes giving the same box again after it
came back.  Rust's ownership discipline allows exactly that and nothing more: the caller can only
provision a box it holds.  `held` is the multiset of ids in the caller's hands. -/

/-- the caller's hands after giving in what the operation takes (one occurrence of the id) -/
def DecOp.taken (op : DecOp) (held : List Nat) : List Nat :=
  match op with
  | .provision s => held.erase s.id
  | _ => held

/-- run a history with a caller holding `held`: a provision must be of a held buffer (else `none`:
not a history a Rust program can produce); results go to the caller's hands -/
def Dec.linRun (crc : CrcFn) (mgr : MgrFn) : Dec → List Nat → List DecOp → Option (Dec × List Nat)
  | ds, held, [] => some (ds, held)
  | ds, held, op :: ops =>
    if op.given.all (· ∈ held) then
      Dec.linRun crc mgr (ds.step crc mgr op) (op.taken held ++ ds.handed crc mgr op) ops
    else none

/-- The buffers are only moved between the decapsulator and the caller: owned ++ held is the same
multiset at every point. -/
theorem C08_linear_conserved (crc : CrcFn) (mgr : MgrFn) (ds : Dec) (held : List Nat)
    (ops : List DecOp) (h : ds.Inv) (ds' : Dec) (held' : List Nat)
    (hr : Dec.linRun crc mgr ds held ops = some (ds', held')) :
    (ds'.owned ++ held').Perm (ds.owned ++ held) := by
  induction ops generalizing ds held with
  | nil => simp only [Dec.linRun, Option.some.injEq, Prod.mk.injEq] at hr; rw [hr.1, hr.2]
  | cons op ops ih =>
    simp only [Dec.linRun] at hr
    split at hr
    · rename_i hsub
      have h2 := ih (ds.step crc mgr op) _ (Dec.inv_step crc mgr h op) hr
      have h1 := C08_step crc mgr ds op h
      have hheld : (op.given ++ op.taken held).Perm held := by
        cases op with
        | provision s =>
          simp only [DecOp.given, List.all_cons, List.all_nil, Bool.and_true,
            decide_eq_true_eq] at hsub
          simp only [DecOp.given, DecOp.taken, List.singleton_append]
          exact (List.perm_cons_erase hsub).symm
        | _ => simp [DecOp.given, DecOp.taken]
      refine h2.trans ?_
      -- owned1 ++ (diff ++ handed) ~ (owned1 ++ handed) ++ diff ~ (owned ++ given) ++ diff
      have e1 : ((ds.step crc mgr op).owned ++ (op.taken held ++ ds.handed crc mgr op)).Perm
          (((ds.step crc mgr op).owned ++ ds.handed crc mgr op) ++ op.taken held) := by
        rw [List.append_assoc]
        exact List.Perm.append_left _ List.perm_append_comm
      refine e1.trans ((h1.append_right _).trans ?_)
      rw [List.append_assoc]
      exact List.Perm.append_left _ hheld
    · cases hr

/-- … hence never duplicated: if the caller starts with pairwise distinct buffers and a
decapsulator owning pairwise distinct other ones, this stays true at every point. -/
theorem C08_linear_nodup (crc : CrcFn) (mgr : MgrFn) (ds : Dec) (held : List Nat)
    (ops : List DecOp) (h : ds.Inv) (hd : (ds.owned ++ held).Nodup) (ds' : Dec) (held' : List Nat)
    (hr : Dec.linRun crc mgr ds held ops = some (ds', held')) :
    ds'.owned.Nodup ∧ held'.Nodup ∧ ∀ i, i ∈ ds'.owned → i ∉ held' := by
  have hn := (C08_linear_conserved crc mgr ds held ops h ds' held' hr).nodup_iff.mpr hd
  rw [List.nodup_append] at hn
  exact ⟨hn.1, hn.2.1, fun i hi hj => hn.2.2 i hi i hj rfl⟩

-- the caller holds buffers 1, 2, 3: provisions them, gets 3 back from a completed reassembly of
-- id 1, provisions it again, and gets it back once more from a complete packet
example : (Dec.linRun zcrc simpleMgr (Dec.new 2 8) [1, 2, 3]
    [.provision (st8 1), .provision (st8 2), .provision (st8 3), .decap (pFirst 1),
     .decap (pInter 1), .decap (pEnd 1), .provision (st8 3), .decap pComplete]).map
      (fun r => (r.1.owned, r.2)) = some ([2, 1], [3]) := by decide

#print axioms C08_owned_def
#print axioms C08_handedOut_def
#print axioms C08_decap_step
#print axioms C08_d2_inv
#print axioms C08_save_never_refused
#print axioms C08_error_returns
#print axioms C08_error_keeps_all
#print axioms C08_provision_step
#print axioms C08_newPdu_step
#print axioms C08_step
#print axioms C08_history_from
#print axioms C08_history
#print axioms C08_nodup
#print axioms C08_nodup_prefix
#print axioms C08_linear_conserved
#print axioms C08_linear_nodup

end Gse
