/-
Property C13, fragmented case — "Whenever `encap_ext` returns Ok, a receiver that knows the
mandatory extensions used recovers exactly the same ordered extension list, protocol type, label and
PDU, for complete **and for fragmented PDUs**".

Props/C13.lean proves the complete packet (`C13_roundtrip_complete`) and the first fragment
(`C13_roundtrip_first`), and that `decap_intermediate` / `decap_end` hand on the extension list of
the saved context (`C13_inter_keeps_exts`, `C13_end_delivers_exts`).  This file composes them over a
whole fragmented transfer: `encap_ext` writes the first fragment, `encap_frag` — which knows nothing
of extensions — the continuation over any schedule of output buffers; the receiver reports the
extension list with every `FragmentedPkt` and delivers it, in order, with the completed PDU.

Quantifiers: every CRC calculator `crc` whose value for this PDU is a `u32` (`CrcFn` is `Nat`-valued
in the model; see the remark at `C02_end`), every encapsulator state `es` (re-use enabled or not),
every PDU, fragment id 0..=255, every label, every protocol type `pt < 65536` that `encap_ext`
accepts (second range, or the id of the final mandatory extension), every first output buffer, every
chain `exts` the receiver's manager knows (`Knows mgr pt exts`, Lemmas/ExtWalk.lean; it contains
`∀ e ∈ exts, e.WF`, so well-formedness is not a separate hypothesis), every finite schedule
`sizes : List Nat` of continuation buffers (by `C02_any_buffers` every finite sequence of output
buffers whatever they contain), every receiver with at least one slot whose slot `fid % max_frag_id`
is free (a free storage `s` on top of the free list) or occupied by a stale context whose storage
is `s`, `s` able to hold the PDU.  No `Mem.WF` hypothesis is needed.

Notation as in Props/C13.lean: `wl = (checkLabelReUse es label).1` is the label as written, `l` the
label the receiver must deliver (`hsync`/`hint`).  The runs `fragPackets`, `fragLens`, `rxRun` are
those of Lemmas/FragRoundtrip.lean; the invariant `SyncX` is in Lemmas/FragRoundtripExt.lean.
-/
import GseVerif.Lemmas.FragRoundtripExt
import GseVerif.Props.C02
import GseVerif.Props.C13

namespace Gse
open Gen

/-! Fixtures for the `example`s: an optional extension with two data bytes followed by the
non-final mandatory extension 0x42 with three data bytes, protocol type 0x0800 behind them (the
extension area is 2 + 2 + 3 + 2 = 9 bytes); a 40-byte PDU with distinct bytes; 6-byte label; first
output buffer of 30 bytes (7 + 6 + 9 header bytes, 8 PDU bytes); schedule 12 (9 PDU bytes),
9 (6 PDU bytes), 64 (end packet: the remaining 17 bytes and the CRC); a receiver with two slots and
one free 48-byte storage whose manager knows 0x42 as non-final with 3 bytes. -/
namespace C13F
def crc0 : CrcFn := fun _ _ _ _ => 0xDEADBEEF
def lab6 : Label := .six 1 2 3 4 5 6
def chain2 : List Ext := [⟨0x0203, .data2, [9, 9]⟩, ⟨0x0042, .mandatory, [1, 2, 3]⟩]
def mgr42 : MgrFn := fun id => if id = 0x42 then .nonFinal 3 else .unknown
def pdu40 : Bytes := (List.range 40).map (fun i => UInt8.ofNat (100 + i))
def buf30 : Bytes := List.replicate 30 0xEE
def sched : List Nat := [12, 9, 64]
def sto48 : Storage := ⟨7, List.replicate 48 0xAA⟩
/-- 2 slots, one free 48-byte storage, nothing remembered -/
def ds0 : Dec := ⟨⟨[sto48], [none, none], 2, 48, 4⟩, none⟩
/-- no free storage; slot 1 holds a stale context (fragment id 3 aliases id 1) with the storage -/
def staleCtx : Ctx := ⟨.three 9 9 9, 0x0801, 3, 500, 5, false, []⟩
def dsStale : Dec := ⟨⟨[], [none, some (staleCtx, sto48)], 2, 48, 4⟩, none⟩
/-- an encapsulator that has just sent `lab6` with re-use enabled -/
def esSent : Enc := ⟨true, 0, 0, some lab6⟩
/-- context returned with the first fragment -/
def ctx8 : FragCtx := ⟨1, 0xDEADBEEF, 8⟩
/-- the first fragment -/
def first30 : Bytes := (encapExt crc0 Enc.new pdu40 1 0x0800 lab6 buf30 chain2).buf.take 30
/-- the storage after the whole PDU has been reassembled in it -/
def sto48' : Storage := ⟨7, pdu40 ++ List.replicate 8 0xAA⟩
/-- what the receiver reports for a first / intermediate fragment of `n` bytes -/
def fragX (n : Nat) : Res DecErr DecStatus × Nat := (.ok (.fragmented ⟨0, 0x0800, lab6, chain2⟩), n)
/-- the receiver after the first fragment -/
def ds1 : Dec :=
  ⟨⟨[], [none, some (⟨lab6, 0x0800, 1, 48, 8, false, chain2⟩,
      ⟨7, pdu40.take 8 ++ List.replicate 40 0xAA⟩)], 2, 48, 4⟩, some lab6⟩
end C13F
open C13F

/-! ### 1. The first fragment of `encap_ext` establishes the invariant -/

/-- **First fragment.**  `encap_ext` returned `Fragmented(n₀, ctx₀)`; the receiver knows the
mandatory extensions; its slot is free (with `s` on top of the free list) or holds a stale context
with storage `s`; `s` can hold the PDU.  Then `decap` of the `n₀` bytes written (followed by
anything) reports `FragmentedPkt` with protocol type, label `l` and exactly the extension list,
consumes exactly `n₀`, and the receiver is in step with `ctx₀` (`SyncX`: the slot holds the context
of this PDU **with the extension list** and the first `ctx₀.pos` PDU bytes in `s`).  The packet is
`n₀` bytes long, the free list is `free`, the label memory is updated. -/
theorem C13_first_sync (crc : CrcFn) (es : Enc) (pdu : Bytes) (fid pt : Nat) (label : Label)
    (buf₀ : Bytes) (exts : List Ext) (n₀ : Nat) (ctx₀ : FragCtx) (mgr : MgrFn) (ds : Dec)
    (rest : Bytes) (s : Storage) (free : List Storage) (l : Label)
    (hres : (encapExt crc es pdu fid pt label buf₀ exts).res = .ok (.fragmented n₀ ctx₀))
    (hk : Knows mgr pt exts) (hpt : pt < 65536) (hfid : fid < 256)
    (h0 : ds.mem.maxFragId ≠ 0)
    (hslot : (ds.mem.frags[fid % ds.mem.maxFragId]? = some none ∧ ds.mem.storages = s :: free) ∨
      (∃ c0, ds.mem.frags[fid % ds.mem.maxFragId]? = some (some (c0, s)) ∧ ds.mem.storages = free))
    (hcap : pdu.length ≤ s.data.length)
    (hsync : (checkLabelReUse es label).1 = .reuse →
      ds.last = some l ∧ (l.type = .six ∨ l.type = .three))
    (hint : (checkLabelReUse es label).1 ≠ .reuse → l = label) :
    ∃ ds', decap crc mgr ds ((encapExt crc es pdu fid pt label buf₀ exts).buf.take n₀ ++ rest)
        = ⟨.ok (.fragmented ⟨0, pt, l, exts⟩), n₀, ds'⟩ ∧
      SyncX crc pdu fid (checkLabelReUse es label).1 l pt s.id exts ctx₀ ds' ∧
      ds'.last = (if (checkLabelReUse es label).1 = .broadcast then none else some l) ∧
      ds'.mem.maxFragId = ds.mem.maxFragId ∧ ds'.mem.storages = free ∧
      (∀ j, j ≠ fid % ds.mem.maxFragId → ds'.mem.frags[j]? = ds.mem.frags[j]?) ∧
      ((encapExt crc es pdu fid pt label buf₀ exts).buf.take n₀).length = n₀ := by
  obtain ⟨_, _, _, htl, _⟩ := encapExt_fragmented_inv hk.extOk hres
  obtain ⟨_, hnb, hlt, hcf, hcc, _, _, hol⟩ :=
    C13_length_first crc es pdu fid pt label buf₀ exts hk.wf n₀ ctx₀ hres
  obtain ⟨hdec, _, _⟩ := C13_roundtrip_first crc es pdu fid pt label buf₀ exts n₀ ctx₀ mgr ds rest
    s free l hres hk hpt hfid h0 hslot (by omega) hsync hint
  have hkl : fid % ds.mem.maxFragId < ds.mem.frags.length := by
    rcases hslot with ⟨h, _⟩ | ⟨c0, h, _⟩ <;> exact slot_index_lt h
  have hwc := writtenLabel_cases es label
  refine ⟨_, hdec, ?_, rfl, rfl, rfl, fun j hj => List.getElem?_set_ne (Ne.symm hj), ?_⟩
  · have htk : (pdu.take ctx₀.pos).length = ctx₀.pos := by rw [List.length_take]; omega
    refine ⟨h0, hfid, htl, fun hr => ?_, hcf, hcc, Nat.le_of_lt hlt,
      ⟨s.id, pdu.take ctx₀.pos ++ s.data.drop ctx₀.pos⟩, ?_, rfl, ?_, ?_⟩
    · rw [hint hr]; exact (hwc.resolve_right hr).symm
    · show (ds.mem.frags.set _ _)[_]? = _
      rw [List.getElem?_set_self hkl]
    · show (pdu.take ctx₀.pos ++ s.data.drop ctx₀.pos).take ctx₀.pos = pdu.take ctx₀.pos
      exact List.take_left' htk
    · show pdu.length ≤ (pdu.take ctx₀.pos ++ s.data.drop ctx₀.pos).length
      rw [List.length_append, htk, List.length_drop]; omega
  · rw [List.length_take, hol]; omega

/-- the first fragment of the fixture: 7 + 6 header bytes, the 9 bytes of the extension area and the
first 8 PDU bytes; the saved context carries the chain -/
example : (encapExt crc0 Enc.new pdu40 1 0x0800 lab6 buf30 chain2).res = .ok (.fragmented 30 ctx8) ∧
    first30 = [0x80, 28, 1, 0, 48, 0x02, 0x03, 1, 2, 3, 4, 5, 6, 9, 9, 0x00, 0x42, 1, 2, 3, 0x08, 0x00]
      ++ pdu40.take 8 ∧
    decap crc0 mgr42 ds0 first30 = ⟨.ok (.fragmented ⟨0, 0x0800, lab6, chain2⟩), 30, ds1⟩ := by
  decide +kernel
/-- the hypotheses of `C13_first_sync` on that instance (free slot) -/
example :=
  C13_first_sync crc0 Enc.new pdu40 1 0x0800 lab6 buf30 chain2 30 ctx8 mgr42 ds0 [0x55] sto48 [] lab6
    (by decide +kernel) (by decide) (by decide) (by decide) (by decide) (Or.inl (by decide))
    (by decide) (by decide) (by decide)
/-- … with a stale context (aliasing fragment id 3) in the slot and no free storage -/
example :=
  C13_first_sync crc0 Enc.new pdu40 1 0x0800 lab6 buf30 chain2 30 ctx8 mgr42 dsStale [] sto48 [] lab6
    (by decide +kernel) (by decide) (by decide) (by decide) (by decide) (Or.inr ⟨staleCtx, by decide⟩)
    (by decide) (by decide) (by decide)
/-- the receiver of the fixture after the first fragment is in step with `ctx8`, chain included -/
theorem C13F.sync1 : SyncX crc0 pdu40 1 lab6 lab6 0x0800 7 chain2 ctx8 ds1 :=
  ⟨by decide, by decide, by decide, fun _ => rfl, rfl, rfl, by decide,
    ⟨7, pdu40.take 8 ++ List.replicate 40 0xAA⟩, by decide, rfl, by decide +kernel, by decide⟩

/-! ### 2. The round trip over a whole schedule -/

/-- **C13, fragmented round trip.**  `encap_ext` returned `Fragmented(n₀, ctx₀)`; `sizes` is any
schedule of output buffer sizes offered to `encap_frag` (`pkts`: the packets produced, `lens`: the
lengths reported for them).  Feeding the first fragment and then `pkts`, in order, to a receiver
that knows the mandatory extensions:
* every packet has exactly the length reported for it, and every `decap` call consumes exactly that
  length;
* while the sender's run is still open, every result is `FragmentedPkt` carrying the protocol type,
  the label `l` and **exactly the ordered extension list `exts`**;
* when the run completed, every result but the last is such a `FragmentedPkt` and the last — the
  only completed one — is `CompletedPkt` with the storage `s` (same identity) starting with exactly
  the PDU, and metadata: PDU length, protocol type, `l`, `exts`; the slot is empty again;
* the receiver remembers `l` afterwards (nothing after a broadcast label); its free list is `free`
  (the storage `s` is with the caller once the PDU is delivered, in the slot before). -/
theorem C13_roundtrip_frag (crc : CrcFn) (es : Enc) (pdu : Bytes) (fid pt : Nat) (label : Label)
    (buf₀ : Bytes) (exts : List Ext) (n₀ : Nat) (ctx₀ : FragCtx) (mgr : MgrFn) (ds : Dec)
    (s : Storage) (free : List Storage) (l : Label) (sizes : List Nat)
    (hres : (encapExt crc es pdu fid pt label buf₀ exts).res = .ok (.fragmented n₀ ctx₀))
    (hk : Knows mgr pt exts) (hpt : pt < 65536) (hfid : fid < 256)
    (hc32 : ctx₀.crc < 2 ^ 32)
    (h0 : ds.mem.maxFragId ≠ 0)
    (hslot : (ds.mem.frags[fid % ds.mem.maxFragId]? = some none ∧ ds.mem.storages = s :: free) ∨
      (∃ c0, ds.mem.frags[fid % ds.mem.maxFragId]? = some (some (c0, s)) ∧ ds.mem.storages = free))
    (hcap : pdu.length ≤ s.data.length)
    (hsync : (checkLabelReUse es label).1 = .reuse →
      ds.last = some l ∧ (l.type = .six ∨ l.type = .three))
    (hint : (checkLabelReUse es label).1 ≠ .reuse → l = label) :
    let first := (encapExt crc es pdu fid pt label buf₀ exts).buf.take n₀
    let pkts := (fragPackets pdu ctx₀ sizes).1
    let lens := fragLens pdu ctx₀ sizes
    let R := rxRun crc mgr ds (first :: pkts)
    let frag : Nat → Res DecErr DecStatus × Nat := fun n => (.ok (.fragmented ⟨0, pt, l, exts⟩), n)
    (first :: pkts).map List.length = n₀ :: lens ∧
    R.1.map Prod.snd = n₀ :: lens ∧
    R.2.last = (if (checkLabelReUse es label).1 = .broadcast then none else some l) ∧
    R.2.mem.storages = free ∧
    (∀ c, (fragPackets pdu ctx₀ sizes).2 = some c → R.1 = (n₀ :: lens).map frag) ∧
    ((fragPackets pdu ctx₀ sizes).2 = none →
      ∃ init nLast st, lens = init ++ [nLast] ∧
        R.1 = (n₀ :: init).map frag ++ [(.ok (.completed st ⟨pdu.length, pt, l, exts⟩), nLast)] ∧
        st.id = s.id ∧ st.data.take pdu.length = pdu ∧
        R.2.mem.frags[fid % ds.mem.maxFragId]? = some none) := by
  dsimp only
  obtain ⟨ds1, hdec, hS, hlast, hM, hfree, _, hlen1⟩ :=
    C13_first_sync crc es pdu fid pt label buf₀ exts n₀ ctx₀ mgr ds [] s free l hres hk hpt hfid h0
      hslot hcap hsync hint
  rw [List.append_nil] at hdec
  obtain ⟨hl, hopen, hdone⟩ := syncx_run crc mgr (by rw [← hS.ctx_crc]; exact hc32) (zeroBufs sizes)
    ctx₀ ds1 hS
  rw [hM] at hopen hdone
  have hR : ∀ ps, rxRun crc mgr ds ((encapExt crc es pdu fid pt label buf₀ exts).buf.take n₀ :: ps)
      = (fragOutX pt l exts n₀ :: (rxRun crc mgr ds1 ps).1, (rxRun crc mgr ds1 ps).2) := by
    intro ps; simp only [rxRun, hdec, fragOutX]
  simp only [fragPackets, fragLens, hR, List.map_cons, hlen1]
  generalize fragSends pdu ctx₀ (zeroBufs sizes) = S at hl hopen hdone ⊢
  generalize rxRun crc mgr ds1 (S.1.map Prod.snd) = R1 at hopen hdone ⊢
  have hlens : (S.1.map Prod.snd).map List.length = S.1.map Prod.fst := by
    rw [List.map_map]
    exact List.map_congr_left fun q hq => hl q hq
  have hsnd : ∀ k : List Nat, (k.map (fragOutX pt l exts)).map Prod.snd = k := by
    intro k; rw [List.map_map]; exact List.map_id' _
  have hcomp : S.1.map (fun q => fragOutX pt l exts q.1)
      = (S.1.map Prod.fst).map (fragOutX pt l exts) := by
    rw [List.map_map]; rfl
  refine ⟨by rw [hlens], ?_, ?_, ?_, fun c hc => ?_, fun hn => ?_⟩
  · cases hfin : S.2 with
    | some c =>
      rw [(hopen c hfin).1, hcomp, hsnd]; rfl
    | none =>
      obtain ⟨init, nLast, st, j1, j2, _⟩ := hdone hfin
      rw [j2, j1, List.map_append, hsnd]; rfl
  · cases hfin : S.2 with
    | some c => rw [(hopen c hfin).2.2.2.2.2.2.1, hlast]
    | none =>
      obtain ⟨_, _, _, _, _, _, _, j5, _⟩ := hdone hfin
      rw [j5.2.2.2.2.1, hlast]
  · cases hfin : S.2 with
    | some c => rw [(hopen c hfin).2.2.1, hfree]
    | none =>
      obtain ⟨_, _, _, _, _, _, _, j5, _⟩ := hdone hfin
      rw [j5.1, hfree]
  · rw [(hopen c hc).1, hcomp]; rfl
  · obtain ⟨init, nLast, st, j1, j2, j3, j4, _, j6⟩ := hdone hn
    exact ⟨init, nLast, st, j1, by rw [j2]; rfl, j3, j4, j6⟩

/-- the whole fixture evaluated: first fragment with the chain, two intermediate fragments, the end
fragment; every consumed length is the reported one; every result carries the chain; the PDU is
delivered in storage 7, whose remaining 8 bytes are untouched; the slot is empty again -/
example : (encapExt crc0 Enc.new pdu40 1 0x0800 lab6 buf30 chain2).res = .ok (.fragmented 30 ctx8) ∧
    fragLens pdu40 ctx8 sched = [12, 9, 24] ∧
    (fragPackets pdu40 ctx8 sched).1.map List.length = [12, 9, 24] ∧
    (fragPackets pdu40 ctx8 sched).2 = none ∧
    rxRun crc0 mgr42 ds0 (first30 :: (fragPackets pdu40 ctx8 sched).1)
      = ([fragX 30, fragX 12, fragX 9,
          (.ok (.completed sto48' ⟨40, 0x0800, lab6, chain2⟩), 24)],
         ⟨⟨[], [none, none], 2, 48, 4⟩, some lab6⟩) := by decide +kernel
/-- the hypotheses of `C13_roundtrip_frag` on that instance -/
example : Knows mgr42 0x0800 chain2 ∧ ∀ e ∈ chain2, e.WF := by decide
example :=
  C13_roundtrip_frag crc0 Enc.new pdu40 1 0x0800 lab6 buf30 chain2 30 ctx8 mgr42 ds0 sto48 [] lab6 sched
    (by decide +kernel) (by decide) (by decide) (by decide) (by decide) (by decide)
    (Or.inl (by decide)) (by decide) (by decide) (by decide)
/-- a schedule that stops early: all results are `FragmentedPkt` with the chain, the context stays
open -/
example : (fragPackets pdu40 ctx8 [12, 9]).2 = some ⟨1, 0xDEADBEEF, 23⟩ ∧
    (rxRun crc0 mgr42 ds0 (first30 :: (fragPackets pdu40 ctx8 [12, 9]).1)).1
      = [fragX 30, fragX 12, fragX 9] := by decide +kernel
/-- the same PDU with the default CRC-32 calculator (a `u32` by `C12_default_lt`), the label replaced
by re-use in the first fragment (6 more PDU bytes fit), the slot occupied by a stale context -/
example :
    let e := encapExt defaultCrc esSent pdu40 1 0x0800 lab6 buf30 chain2
    let ds : Dec := { dsStale with last := some lab6 }
    ∃ c, e.res = .ok (.fragmented 30 ⟨1, c, 14⟩) ∧ (fragPackets pdu40 ⟨1, c, 14⟩ sched).2 = none ∧
      (rxRun defaultCrc mgr42 ds (e.buf.take 30 :: (fragPackets pdu40 ⟨1, c, 14⟩ sched).1)).1
        = [fragX 30, fragX 12, fragX 9,
           (.ok (.completed sto48' ⟨40, 0x0800, lab6, chain2⟩), 18)] :=
  ⟨defaultCrc pdu40 0x0800 42 [], by decide +kernel⟩
example :=
  C13_roundtrip_frag defaultCrc esSent pdu40 1 0x0800 lab6 buf30 chain2 30
    ⟨1, defaultCrc pdu40 0x0800 42 [], 14⟩ mgr42 { dsStale with last := some lab6 } sto48 [] lab6 sched
    (by decide +kernel) (by decide) (by decide) (by decide) (C12_default_lt _ _ _ _) (by decide)
    (Or.inr ⟨staleCtx, by decide⟩) (by decide) (fun _ => by decide) (fun h => absurd (by decide) h)
/-- a protocol type of the mandatory range: the chain ends with the final mandatory extension 0x42,
which takes the place of the protocol type (the extension area is 2 bytes shorter, 10 PDU bytes fit);
the receiver's manager knows 0x42 as final with 3 bytes -/
example :
    let mgrF : MgrFn := fun id => if id = 0x42 then .final 3 else .unknown
    let e := encapExt crc0 Enc.new pdu40 1 0x42 lab6 buf30 chain2
    Knows mgrF 0x42 chain2 ∧ e.res = .ok (.fragmented 30 ⟨1, 0xDEADBEEF, 10⟩) ∧
      (rxRun crc0 mgrF ds0 (e.buf.take 30 :: (fragPackets pdu40 ⟨1, 0xDEADBEEF, 10⟩ sched).1)).1
        = [(.ok (.fragmented ⟨0, 0x42, lab6, chain2⟩), 30),
           (.ok (.fragmented ⟨0, 0x42, lab6, chain2⟩), 12),
           (.ok (.fragmented ⟨0, 0x42, lab6, chain2⟩), 9),
           (.ok (.completed sto48' ⟨40, 0x42, lab6, chain2⟩), 22)] := by decide +kernel
/-- without the knowledge (`simpleMgr` knows no mandatory extension) the first fragment is dropped
(`C13_unknown_first`) and the continuation finds no context: nothing is delivered -/
example : (rxRun crc0 simpleMgr ds0 (first30 :: (fragPackets pdu40 ctx8 sched).1)).1
    = [(.err .unknownMandatoryHeader, 30), (.err (.memory .undefinedId), 12),
       (.err (.memory .undefinedId), 9), (.err (.memory .undefinedId), 24)] := by decide +kernel

/-! ### 3. Delivery: with enough buffers the PDU arrives with its extension list -/

/-- **C13, fragmented delivery.**  Round trip and progress (`C02_progress`) together: once
`remaining / 10 + 2` buffers of 13 bytes or more have been offered to `encap_frag` — whatever smaller
buffers are offered in between — the run completes, and the receiver has delivered the PDU:
`FragmentedPkt` (protocol type, label, extension list) for every packet but the last, then exactly
one `CompletedPkt` with the original bytes, length, protocol type, label and **the exact ordered
extension list**, each call consuming the reported length. -/
theorem C13_delivery_frag (crc : CrcFn) (es : Enc) (pdu : Bytes) (fid pt : Nat) (label : Label)
    (buf₀ : Bytes) (exts : List Ext) (n₀ : Nat) (ctx₀ : FragCtx) (mgr : MgrFn) (ds : Dec)
    (s : Storage) (free : List Storage) (l : Label) (sizes : List Nat)
    (hres : (encapExt crc es pdu fid pt label buf₀ exts).res = .ok (.fragmented n₀ ctx₀))
    (hk : Knows mgr pt exts) (hpt : pt < 65536) (hfid : fid < 256)
    (hc32 : ctx₀.crc < 2 ^ 32)
    (h0 : ds.mem.maxFragId ≠ 0)
    (hslot : (ds.mem.frags[fid % ds.mem.maxFragId]? = some none ∧ ds.mem.storages = s :: free) ∨
      (∃ c0, ds.mem.frags[fid % ds.mem.maxFragId]? = some (some (c0, s)) ∧ ds.mem.storages = free))
    (hcap : pdu.length ≤ s.data.length)
    (hsync : (checkLabelReUse es label).1 = .reuse →
      ds.last = some l ∧ (l.type = .six ∨ l.type = .three))
    (hint : (checkLabelReUse es label).1 ≠ .reuse → l = label)
    (hcnt : (pdu.length - ctx₀.pos) / 10 + 2 ≤ sizes.countP (fun sz => decide (13 ≤ sz))) :
    (fragPackets pdu ctx₀ sizes).2 = none ∧
    ∃ init nLast st, fragLens pdu ctx₀ sizes = init ++ [nLast] ∧
      (rxRun crc mgr ds ((encapExt crc es pdu fid pt label buf₀ exts).buf.take n₀
          :: (fragPackets pdu ctx₀ sizes).1)).1
        = (n₀ :: init).map (fun n => (.ok (.fragmented ⟨0, pt, l, exts⟩), n))
          ++ [(.ok (.completed st ⟨pdu.length, pt, l, exts⟩), nLast)] ∧
      (rxRun crc mgr ds ((encapExt crc es pdu fid pt label buf₀ exts).buf.take n₀
          :: (fragPackets pdu ctx₀ sizes).1)).1.map Prod.snd = n₀ :: fragLens pdu ctx₀ sizes ∧
      st.id = s.id ∧ st.data.take pdu.length = pdu := by
  obtain ⟨_, _, hlt, htl, _, _, hctx, _⟩ := encapExt_fragmented_inv hk.extOk hres
  have hpos : ctx₀.pos < pdu.length := by rw [hctx]; exact hlt
  have hfin := C02_progress pdu ctx₀ sizes (by gse_omega) (Nat.le_of_lt hpos) hcnt
  obtain ⟨_, hcons, _, _, _, hdone⟩ :=
    C13_roundtrip_frag crc es pdu fid pt label buf₀ exts n₀ ctx₀ mgr ds s free l sizes hres hk hpt
      hfid hc32 h0 hslot hcap hsync hint
  obtain ⟨init, nLast, st, h1, h2, h3, h4, _⟩ := hdone hfin
  exact ⟨hfin, init, nLast, st, h1, h2, hcons, h3, h4⟩

/-- 32 bytes remain after the first fragment of the fixture: 32 / 10 + 2 = 5 buffers of 13 bytes
suffice, with the 12- and 9-byte buffers of the schedule (which carry 9 and 6 bytes) in front and
a rejected 2-byte buffer in between; the fourth 13-byte buffer has no room for the last 7 bytes
*and* the CRC, so it carries the 7 bytes as an intermediate fragment and the fifth one the end
packet with the CRC alone -/
example : fragLens pdu40 ctx8 [12, 9, 13, 2, 13, 13, 13, 13] = [12, 9, 13, 10, 7] ∧
    (rxRun crc0 mgr42 ds0 (first30 :: (fragPackets pdu40 ctx8 [12, 9, 13, 2, 13, 13, 13, 13]).1)).1
      = [fragX 30, fragX 12, fragX 9, fragX 13, fragX 10,
         (.ok (.completed sto48' ⟨40, 0x0800, lab6, chain2⟩), 7)] := by decide +kernel
example :=
  C13_delivery_frag crc0 Enc.new pdu40 1 0x0800 lab6 buf30 chain2 30 ctx8 mgr42 ds0 sto48 [] lab6
    [12, 9, 13, 2, 13, 13, 13, 13]
    (by decide +kernel) (by decide) (by decide) (by decide) (by decide) (by decide)
    (Or.inl (by decide)) (by decide) (by decide) (by decide) (by decide)
/-- the schedule of the fixture followed by four more 13-byte buffers (never used: the 64-byte
buffer takes the end packet) -/
example :=
  C13_delivery_frag crc0 Enc.new pdu40 1 0x0800 lab6 buf30 chain2 30 ctx8 mgr42 ds0 sto48 [] lab6
    (sched ++ [13, 13, 13, 13])
    (by decide +kernel) (by decide) (by decide) (by decide) (by decide) (by decide)
    (Or.inl (by decide)) (by decide) (by decide) (by decide) (by decide)

end Gse

#print axioms Gse.C13_first_sync
#print axioms Gse.C13_roundtrip_frag
#print axioms Gse.C13_delivery_frag
