/-
Model of src/gse_decap/gse_decap_memory/mod.rs (`SimpleGseMemory`) and of
`DecapContext`.  A storage (`Box<[u8]>`) carries a ghost identity `id`: Rust moves
the box, the model moves the pair, so leaks and duplications are observable.
-/
import GseVerif.Model.Label
import GseVerif.Model.Ext

namespace Gse
open Gen

/-- a `Box<[u8]>` with a ghost identity -/
structure Storage where
  id : Nat
  data : Bytes
  deriving DecidableEq, Repr, Inhabited

/-- `DecapContext` -/
structure Ctx where
  label : Label
  pt : Nat           -- protocol_type : u16
  fragId : Nat       -- frag_id : u8
  totalLen : Nat     -- total_len : u16
  pduLen : Nat       -- pdu_len : u16
  fromReuse : Bool   -- from_label_reuse
  exts : List Ext    -- extensions_header
  deriving DecidableEq, Repr, Inhabited

/-- `DecapMemoryError` -/
inductive MemErr where
  | storageOverflow (s : Storage)
  | storageUnderflow
  | undefinedId
  | bufferTooSmall (s : Storage)
  | memoryCorrupted
  deriving DecidableEq, Repr, Inhabited

/-- `SimpleGseMemory`.  `storages` is the `Vec` used as a stack, top first;
`cap` is `storages.capacity()`, fixed at creation (`Vec::with_capacity(n)` is assumed to
give exactly `n`, and the vector never grows beyond it because `provision_storage`
refuses to push when `len == capacity`). -/
structure Mem where
  storages : List Storage
  frags : List (Option (Ctx × Storage))
  maxFragId : Nat
  maxPduSize : Nat
  cap : Nat
  deriving DecidableEq, Repr, Inhabited

/-- `SimpleGseMemory::new(max_frag_id, max_pdu_size, _, _)` -/
def Mem.new (maxFragId maxPduSize : Nat) : Mem :=
  ⟨[], List.replicate maxFragId none, maxFragId, maxPduSize, maxFragId + MIN_MARGIN⟩

/-- `provision_storage` -/
def Mem.provision (m : Mem) (s : Storage) : Res MemErr Unit × Mem :=
  if m.cap = m.storages.length then (.err (.storageOverflow s), m)
  else if s.data.length < m.maxPduSize then (.err (.bufferTooSmall s), m)
  else (.ok (), { m with storages := s :: m.storages })

/-- `new_pdu` -/
def Mem.newPdu (m : Mem) : Res MemErr Storage × Mem :=
  match m.storages with
  | [] => (.err .storageUnderflow, m)
  | s :: rest => (.ok s, { m with storages := rest })

/-- `new_frag`; `panic` models `self.frags[idx]` out of range and `% 0`. -/
def Mem.newFrag (m : Mem) (c : Ctx) : Res MemErr (Ctx × Storage) × Mem :=
  if m.maxFragId = 0 then (.err .storageUnderflow, m)
  else
    let idx := c.fragId % m.maxFragId
    match m.frags[idx]? with
    | none => (.panic, m)
    | some slot =>
      let m1 : Mem := { m with frags := m.frags.set idx none }
      match slot with
      | none =>
        match m1.newPdu with
        | (.ok s, m2) => (.ok (c, s), m2)
        | (.err e, m2) => (.err e, m2)
        | (.panic, m2) => (.panic, m2)
      | some (_, s) => (.ok (c, s), m1)

/-- `take_frag` -/
def Mem.takeFrag (m : Mem) (fragId : Nat) : Res MemErr (Ctx × Storage) × Mem :=
  if m.maxFragId = 0 then (.err .undefinedId, m)
  else
    let idx := fragId % m.maxFragId
    match m.frags[idx]? with
    | none => (.panic, m)
    | some none => (.err .undefinedId, m)
    | some (some (c, s)) =>
      if c.fragId = fragId then (.ok (c, s), { m with frags := m.frags.set idx none })
      else (.err .undefinedId, m)

/-- `save_frag`; on `MemoryCorrupted` the context and its storage are dropped by the callee. -/
def Mem.saveFrag (m : Mem) (cs : Ctx × Storage) : Res MemErr Unit × Mem :=
  if m.maxFragId = 0 then (.err .memoryCorrupted, m)
  else
    let idx := cs.1.fragId % m.maxFragId
    match m.frags[idx]? with
    | none => (.panic, m)
    | some none => (.ok (), { m with frags := m.frags.set idx (some cs) })
    | some (some _) => (.err .memoryCorrupted, m)

end Gse
