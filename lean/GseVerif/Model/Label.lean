/-
Model of src/label/mod.rs and src/pkt_type.rs.
-/
import GseVerif.Generated.Consts
import GseVerif.Model.Basic

namespace Gse
open Gen

/-- `pkt_type::PktType` -/
inductive PktType where
  | complete | first | inter | end_
  deriving DecidableEq, Repr, Inhabited

/-- `label::LabelType` -/
inductive LabelType where
  | six | three | broadcast | reuse
  deriving DecidableEq, Repr, Inhabited

/-- `label::Label`; the fixed-size arrays are spelled out so that no length side
condition is needed. -/
inductive Label where
  | six (b0 b1 b2 b3 b4 b5 : UInt8)
  | three (b0 b1 b2 : UInt8)
  | broadcast
  | reuse
  deriving DecidableEq, Repr, Inhabited

/-- `Label::get_type` -/
def Label.type : Label → LabelType
  | .six .. => .six
  | .three .. => .three
  | .broadcast => .broadcast
  | .reuse => .reuse

/-- `LabelType::len` -/
def LabelType.len : LabelType → Nat
  | .six => LABEL_6_B_LEN
  | .three => LABEL_3_B_LEN
  | .broadcast => LABEL_BROADCAST_LEN
  | .reuse => LABEL_REUSE_LEN

/-- `Label::len` -/
def Label.len : Label → Nat
  | .six .. => LABEL_6_B_LEN
  | .three .. => LABEL_3_B_LEN
  | .broadcast => LABEL_BROADCAST_LEN
  | .reuse => LABEL_REUSE_LEN

/-- `Label::get_bytes` -/
def Label.bytes : Label → Bytes
  | .six a b c d e f => [a, b, c, d, e, f]
  | .three a b c => [a, b, c]
  | .broadcast => []
  | .reuse => []

/-- `Label::new(label_type, bytes)`; `none` models `panic!("Wrong size label content")`
(and the `try_into().unwrap()` which cannot fail once the length test passed). -/
def Label.new (lt : LabelType) (bs : Bytes) : Option Label :=
  if bs.length = lt.len then
    match lt, bs with
    | .six, [a, b, c, d, e, f] => some (.six a b c d e f)
    | .three, [a, b, c] => some (.three a b c)
    | .broadcast, _ => some .broadcast
    | .reuse, _ => some .reuse
    | _, _ => none
  else none

/-- `Label::SixBytesLabel([0; 6])`, reserved for padding. -/
def zeroLabel : Label := .six 0 0 0 0 0 0

end Gse
