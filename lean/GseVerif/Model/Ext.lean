/-
Model of src/header_extension/mod.rs.
-/
import GseVerif.Generated.Consts
import GseVerif.Generated.HLen
import GseVerif.Model.Basic

namespace Gse
open Gen

/-- which `ExtensionData` variant holds the data -/
inductive ExtKind where
  | data2 | data4 | data6 | data8 | noData | mandatory
  deriving DecidableEq, Repr, Inhabited

/-- `Extension { id, data }`; `data` is the content of the `ExtensionData` variant `kind`. -/
structure Ext where
  id : Nat
  kind : ExtKind
  data : Bytes
  deriving DecidableEq, Repr, Inhabited

/-- `Extension::len` : id + data, from the variant -/
def Ext.len (e : Ext) : Nat :=
  match e.kind with
  | .data2 => 2 + PROTOCOL_LEN
  | .data4 => 4 + PROTOCOL_LEN
  | .data6 => 6 + PROTOCOL_LEN
  | .data8 => 8 + PROTOCOL_LEN
  | .noData => PROTOCOL_LEN
  | .mandatory => PROTOCOL_LEN + e.data.length

inductive ExtErr where
  | sizeMismatch   -- IdAndVecSizeNotMatchingError
  | incorrectId    -- IncorrectExtensionId
  deriving DecidableEq, Repr

/-- `Extension::new(id, data)` for `id : u16`.  `panic` models the two `unreachable!()`. -/
def extNew (id : Nat) (data : Bytes) : Res ExtErr Ext :=
  if id ≥ SECOND_RANGE_PTYPE then .err .incorrectId
  else if id < MAX_MANDATORY_VAL_PTYPE then .ok ⟨id, .mandatory, data⟩
  else
    match hlenDataSize (id / 256) with
    | none => .panic
    | some sz =>
      if sz ≠ data.length then .err .sizeMismatch
      else match data.length with
        | 0 => .ok ⟨id, .noData, data⟩
        | 2 => .ok ⟨id, .data2, data⟩
        | 4 => .ok ⟨id, .data4, data⟩
        | 6 => .ok ⟨id, .data6, data⟩
        | 8 => .ok ⟨id, .data8, data⟩
        | _ => .panic

/-- `MandatoryHeaderExt` -/
inductive MandExt where
  | final (n : Nat) | nonFinal (n : Nat) | unknown
  deriving DecidableEq, Repr, Inhabited

/-- a `MandatoryHeaderExtensionManager` -/
abbrev MgrFn := Nat → MandExt

/-- `SimpleMandatoryExtensionHeaderManager` -/
def simpleMgr : MgrFn := fun _ => .unknown

/-- `SignalisationMandatoryExtensionHeaderManager` (ids regenerated from the source) -/
def signalisationMgr : MgrFn := fun id =>
  match SIGNALISATION_KNOWN.find? (fun e => e.1 = id) with
  | some (_, true, n) => .final n
  | some (_, false, n) => .nonFinal n
  | none => .unknown

end Gse
