/-
Model of src/crc.rs: the table-driven CRC and `DefaultCrc::calculate_crc32`.
The 256-entry table is `Gen.CRC_TAB`, regenerated from the source on every run.
-/
import GseVerif.Generated.Consts
import GseVerif.Generated.CrcTab
import GseVerif.Model.Basic

namespace Gse
open Gen

/-- A `CrcCalculator`: `calculate_crc32(pdu, protocol_type, total_length, label)`. -/
abbrev CrcFn := Bytes → Nat → Nat → Bytes → Nat

def crcTab : Array (BitVec 32) := (CRC_TAB.map (BitVec.ofNat 32)).toArray

/-- `((acc >> 24) ^ octet as u32) as usize` -/
def crcIndex (acc : BitVec 32) (o : UInt8) : Nat :=
  ((acc >>> 24) ^^^ BitVec.ofNat 32 o.toNat).toNat

/-- `(acc << 8) ^ CRC_TAB[index]`.  The lookup is totalised with `getD`; that the index
is always inside the table (no panic) is theorem `crcIndex_lt_size` in `Props/C12.lean`. -/
def crcStep (acc : BitVec 32) (o : UInt8) : BitVec 32 :=
  (acc <<< 8) ^^^ crcTab.getD (crcIndex acc o) 0

/-- `crc32(data, crc)` -/
def crc32 (data : Bytes) (acc : BitVec 32) : BitVec 32 := data.foldl crcStep acc

/-- `DefaultCrc::calculate_crc32` -/
def defaultCrc : CrcFn := fun pdu pt tl label =>
  (crc32 pdu (crc32 label (crc32 (be16 pt) (crc32 (be16 tl) (BitVec.ofNat 32 CRC_INIT))))).toNat

end Gse
