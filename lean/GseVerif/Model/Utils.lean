/-
Model of src/utils/mod.rs: the four packet structs and their `Serialisable` impls.
`generate` returns `none` where a slice write would panic; `parse` returns `panic`
where an index, `unwrap` or `Label::new` would.
-/
import GseVerif.Model.Header
import GseVerif.Model.Encap

namespace Gse
open Gen

structure CompletePkt where
  gseLen : Nat
  pt : Nat
  label : Label
  pdu : Bytes
  deriving DecidableEq, Repr, Inhabited

structure FirstPkt where
  gseLen : Nat
  fragId : Nat
  totalLen : Nat
  pt : Nat
  label : Label
  pdu : Bytes
  deriving DecidableEq, Repr, Inhabited

structure InterPkt where
  gseLen : Nat
  fragId : Nat
  pdu : Bytes
  deriving DecidableEq, Repr, Inhabited

structure EndPkt where
  gseLen : Nat
  fragId : Nat
  pdu : Bytes
  crc : Nat
  deriving DecidableEq, Repr, Inhabited

def CompletePkt.generate (p : CompletePkt) (buf : Bytes) : Option Bytes :=
  (wrSeq buf 0 [be16 (genHeader .complete p.label.type p.gseLen), be16 p.pt, p.label.bytes, p.pdu]).map (·.1)

def FirstPkt.generate (p : FirstPkt) (buf : Bytes) : Option Bytes :=
  (wrSeq buf 0 [be16 (genHeader .first p.label.type p.gseLen), [u8 p.fragId], be16 p.totalLen,
    be16 p.pt, p.label.bytes, p.pdu]).map (·.1)

def InterPkt.generate (p : InterPkt) (buf : Bytes) : Option Bytes :=
  (wrSeq buf 0 [be16 (genHeader .inter .reuse p.gseLen), [u8 p.fragId], p.pdu]).map (·.1)

def EndPkt.generate (p : EndPkt) (buf : Bytes) : Option Bytes :=
  (wrSeq buf 0 [be16 (genHeader .end_ .reuse p.gseLen), [u8 p.fragId], p.pdu, be32 p.crc]).map (·.1)

/-- `read_gse_header(u16::from_be_bytes(buffer[..2].try_into().unwrap())).unwrap()` -/
def utilsHeader (buf : Bytes) : Option (Nat × PktType × LabelType) :=
  match get16 buf 0 with
  | none => none
  | some w =>
    match readHeader w with
    | .ok (some h) => some h
    | _ => none

/-- `&buffer[from..to]` -/
def sliceTo (b : Bytes) (off to : Nat) : Option Bytes :=
  if off ≤ to then slice b off (to - off) else none

def CompletePkt.parse (buf : Bytes) : Res Unit CompletePkt :=
  match utilsHeader buf with
  | none => .panic
  | some (gseLen, k, lt) =>
    if k ≠ .complete then .err ()
    else
      let off := FIXED_HEADER_LEN
      match get16 buf off, (slice buf (off + PROTOCOL_LEN) lt.len).bind (Label.new lt) with
      | some pt, some label =>
        match sliceTo buf (off + PROTOCOL_LEN + label.len) (gseLen + FIXED_HEADER_LEN) with
        | some pdu => .ok ⟨gseLen, pt, label, pdu⟩
        | none => .panic
      | _, _ => .panic

def FirstPkt.parse (buf : Bytes) : Res Unit FirstPkt :=
  match utilsHeader buf with
  | none => .panic
  | some (gseLen, k, lt) =>
    if k ≠ .first then .err ()
    else
      let off := FIXED_HEADER_LEN
      match get8 buf off, get16 buf (off + FRAG_ID_LEN), get16 buf (off + FRAG_ID_LEN + TOTAL_LENGTH_LEN),
            (slice buf (off + FRAG_ID_LEN + TOTAL_LENGTH_LEN + PROTOCOL_LEN) lt.len).bind (Label.new lt) with
      | some fid, some tl, some pt, some label =>
        match sliceTo buf (off + FRAG_ID_LEN + TOTAL_LENGTH_LEN + PROTOCOL_LEN + label.len)
            (gseLen + FIXED_HEADER_LEN) with
        | some pdu => .ok ⟨gseLen, fid, tl, pt, label, pdu⟩
        | none => .panic
      | _, _, _, _ => .panic

def InterPkt.parse (buf : Bytes) : Res Unit InterPkt :=
  match utilsHeader buf with
  | none => .panic
  | some (gseLen, k, _) =>
    if k ≠ .inter then .err ()
    else
      let off := FIXED_HEADER_LEN
      match get8 buf off with
      | some fid =>
        match sliceTo buf (off + FRAG_ID_LEN) (gseLen + FIXED_HEADER_LEN) with
        | some pdu => .ok ⟨gseLen, fid, pdu⟩
        | none => .panic
      | none => .panic

def EndPkt.parse (buf : Bytes) : Res Unit EndPkt :=
  match utilsHeader buf with
  | none => .panic
  | some (gseLen, k, _) =>
    if k ≠ .end_ then .err ()
    else
      let off := FIXED_HEADER_LEN
      match get8 buf off with
      | some fid =>
        if gseLen + FIXED_HEADER_LEN < CRC_LEN then .panic   -- usize subtraction
        else
          let e := gseLen + FIXED_HEADER_LEN - CRC_LEN
          match sliceTo buf (off + FRAG_ID_LEN) e, get32 buf e with
          | some pdu, some crc => .ok ⟨gseLen, fid, pdu, crc⟩
          | _, _ => .panic
      | none => .panic

end Gse
