/-
Basic vocabulary of the model: outcomes with an explicit `panic`, byte strings,
big-endian (de)serialisation, slices and in-place writes with Rust's bounds checks.
Core Lean only (the driver executable links this file).
-/
namespace Gse

/-- Outcome of a modelled Rust function: `Ok`, `Err`, or a panic (slice index out of
range, `unwrap` on `None`/`Err`, `unreachable!`, arithmetic overflow in debug builds). -/
inductive Res (ε α : Type) where
  | ok (a : α)
  | err (e : ε)
  | panic
  deriving Repr, DecidableEq, Inhabited

abbrev Bytes := List UInt8

/-- `n as u8` -/
@[inline] def u8 (n : Nat) : UInt8 := UInt8.ofNat n

/-- `(n as u16).to_be_bytes()` (the cast truncates modulo 65536). -/
def be16 (n : Nat) : Bytes := [u8 (n / 256), u8 n]

/-- `(n as u32).to_be_bytes()` -/
def be32 (n : Nat) : Bytes := [u8 (n / 16777216), u8 (n / 65536), u8 (n / 256), u8 n]

/-- `u16::from_be_bytes([a, b])` -/
def rd16 (a b : UInt8) : Nat := a.toNat * 256 + b.toNat

/-- `u32::from_be_bytes([a, b, c, d])` -/
def rd32 (a b c d : UInt8) : Nat :=
  a.toNat * 16777216 + b.toNat * 65536 + c.toNat * 256 + d.toNat

/-- `&b[off .. off + len]`: `none` models the out-of-range panic. -/
def slice (b : Bytes) (off len : Nat) : Option Bytes :=
  if off + len ≤ b.length then some ((b.drop off).take len) else none

/-- `b[off .. off + src.len()].copy_from_slice(src)`: `none` models the out-of-range panic. -/
def blit (b : Bytes) (off : Nat) (src : Bytes) : Option Bytes :=
  if off + src.length ≤ b.length then
    some (b.take off ++ src ++ b.drop (off + src.length))
  else none

/-- `u16::from_be_bytes(b[off..off+2].try_into().unwrap())` -/
def get16 (b : Bytes) (off : Nat) : Option Nat :=
  match slice b off 2 with
  | some [x, y] => some (rd16 x y)
  | _ => none

/-- `u32::from_be_bytes(b[off..off+4].try_into().unwrap())` -/
def get32 (b : Bytes) (off : Nat) : Option Nat :=
  match slice b off 4 with
  | some [w, x, y, z] => some (rd32 w x y z)
  | _ => none

/-- `b[off]` -/
def get8 (b : Bytes) (off : Nat) : Option Nat :=
  match b[off]? with
  | some x => some x.toNat
  | none => none

end Gse
