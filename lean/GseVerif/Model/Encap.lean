/-
Model of src/gse_encap/mod.rs: the encapsulator's label re-use state, `encap`,
`encap_frag`, `encap_ext`, `encap_preview`, `encap_frag_preview`.

Conventions (DESIGN.md §3): `usize` values are `Nat`; every `as u16` is an explicit
`% 65536`; checked `u16` additions, slice indexing and `usize` subtractions are guarded
and yield `panic`.  State updates and buffer writes happen in the order of the code, so
failure atomicity is a theorem about that order and not part of the definition.
-/
import GseVerif.Model.Header
import GseVerif.Model.Crc
import GseVerif.Model.Ext

namespace Gse
open Gen

/-- `EncapError` -/
inductive EncErr where
  | sizeBuffer | pduLength | protocolType | invalidLabel | noExtensionFound
  | finalMandatoryExtensionHeader
  deriving DecidableEq, Repr, Inhabited

/-- `ContextFrag` -/
structure FragCtx where
  fragId : Nat
  crc : Nat
  pos : Nat      -- len_pdu_frag : u16
  deriving DecidableEq, Repr, Inhabited

/-- `EncapStatus` -/
inductive EncStatus where
  | completed (n : Nat)
  | fragmented (n : Nat) (ctx : FragCtx)
  deriving DecidableEq, Repr, Inhabited

/-- The mutable fields of `Encapsulator` (the CRC calculator is a parameter). -/
structure Enc where
  reUse : Bool          -- re_use_activated
  reMax : Nat           -- re_max_consecutive : u8
  reCur : Nat           -- re_current_consecutive : u8
  last : Option Label   -- last_label
  deriving DecidableEq, Repr, Inhabited

/-- `Encapsulator::new` -/
def Enc.new : Enc := ⟨true, 0, 0, none⟩
/-- `reset_last_label` -/
def Enc.reset (e : Enc) : Enc := { e with last := none }
/-- `disable_re_use_label` -/
def Enc.disable (e : Enc) : Enc := { e with last := none, reUse := false, reMax := 0, reCur := 0 }
/-- `enable_re_use_label` -/
def Enc.enable (e : Enc) : Enc := { e with reUse := true, reMax := 0, reCur := 0 }
/-- `enable_re_use_label_with_max_consecutive` -/
def Enc.enableMax (e : Enc) (n : Nat) : Enc := { e with reUse := true, reMax := n, reCur := 0 }

/-- `check_label_re_use`.  `re_current_consecutive += 1` happens only below
`re_max_consecutive : u8`, so the `u8` addition cannot overflow. -/
def checkLabelReUse (es : Enc) (next : Label) : Label × Enc :=
  if es.reUse then
    if some next = es.last ∧ es.reMax = 0 then (.reuse, es)
    else if some next = es.last ∧ es.reCur < es.reMax then
      (.reuse, { es with reCur := es.reCur + 1 })
    else
      let es1 : Enc := if some next = es.last then { es with reCur := 0 } else es
      let es2 : Enc :=
        if next = .broadcast then { es1 with last := none }
        else if next ≠ .reuse then { es1 with last := some next }
        else es1
      (next, es2)
  else (next, es)

/-- What an encapsulation call leaves behind: result, output buffer, encapsulator. -/
structure EncOut where
  res : Res EncErr EncStatus
  buf : Bytes
  st : Enc
  deriving DecidableEq, Repr, Inhabited

/-- Sequential writes `buffer[off..off+len].copy_from_slice(chunk); off += len`. -/
def wrSeq (b : Bytes) (off : Nat) : List Bytes → Option (Bytes × Nat)
  | [] => some (b, off)
  | c :: cs =>
    match blit b off c with
    | some b' => wrSeq b' (off + c.length) cs
    | none => none

/-- The bytes written after the label by `encap_ext`: data of the first extension, then
(id, data) of each following one. -/
def extChain : List Ext → Bytes
  | [] => []
  | e :: rest => e.data ++ (rest.map (fun x => be16 x.id ++ x.data)).flatten

/-- `encap(pdu, frag_id, metadata, buffer)` -/
def encap (crc : CrcFn) (es : Enc) (pdu : Bytes) (fid pt : Nat) (label : Label)
    (buf : Bytes) : EncOut :=
  if label = zeroLabel then ⟨.err .invalidLabel, buf, es⟩
  else if MAX_MANDATORY_VAL_PTYPE ≤ pt ∧ pt < SECOND_RANGE_PTYPE then ⟨.err .protocolType, buf, es⟩
  else
    let (lbl, es1) := checkLabelReUse es label
    let restored : Enc := { es1 with last := es.last, reCur := es.reCur }
    let labelLen := lbl.len
    let pduLen := pdu.length
    let gseLenMin := pduLen + labelLen + PROTOCOL_LEN
    let minHeaderLen := FIXED_HEADER_LEN + PROTOCOL_LEN + labelLen
    let bufLen := buf.length
    if bufLen ≥ minHeaderLen + pduLen ∧ GSE_LEN_MAX ≥ gseLenMin then
      -- complete packet
      let gseLen := gseLenMin % 65536
      let header := genHeader .complete lbl.type gseLen
      if gseLen + FIXED_HEADER_LEN ≥ 65536 then ⟨.panic, buf, es1⟩   -- u16 addition
      else
        match slice pdu 0 pduLen with
        | none => ⟨.panic, buf, es1⟩
        | some payload =>
          match wrSeq buf 0 [be16 header, be16 pt, lbl.bytes, payload] with
          | none => ⟨.panic, buf, es1⟩
          | some (b, _) => ⟨.ok (.completed (gseLen + FIXED_HEADER_LEN)), b, es1⟩
    else
      -- first fragment
      let minHeaderLen := minHeaderLen + FRAG_ID_LEN + TOTAL_LENGTH_LEN
      if bufLen < minHeaderLen then ⟨.err .sizeBuffer, buf, restored⟩
      else if TOTAL_LEN_MAX < pduLen + PROTOCOL_LEN + labelLen then ⟨.err .pduLength, buf, restored⟩
      else
        let hdrGse := FRAG_ID_LEN + TOTAL_LENGTH_LEN + PROTOCOL_LEN + labelLen
        if GSE_LEN_MAX < hdrGse then ⟨.panic, buf, es1⟩   -- usize subtraction
        else
          let n := min (bufLen - minHeaderLen) (GSE_LEN_MAX - hdrGse)
          let gseLen := (hdrGse + n) % 65536
          let header := genHeader .first lbl.type gseLen
          let totalLen := (pduLen + PROTOCOL_LEN + labelLen) % 65536
          let ctx : FragCtx := ⟨fid, crc pdu pt totalLen lbl.bytes, n % 65536⟩
          let pktLen := (FIRST_FRAG_LEN + labelLen + n) % 65536
          match slice pdu 0 n with
          | none => ⟨.panic, buf, es1⟩
          | some payload =>
            match wrSeq buf 0 [be16 header, [u8 fid], be16 totalLen, be16 pt, lbl.bytes, payload] with
            | none => ⟨.panic, buf, es1⟩
            | some (b, _) => ⟨.ok (.fragmented pktLen ctx), b, es1⟩

/-- `encap_frag(pdu, context, buffer)` (`&self`: the encapsulator is not modified). -/
def encapFrag (pdu : Bytes) (ctx : FragCtx) (buf : Bytes) : Res EncErr EncStatus × Bytes :=
  let pos := ctx.pos
  let bufLen := buf.length
  let pduLen := pdu.length
  if pos > pduLen then (.err .pduLength, buf)
  else
    let remaining := pduLen - pos
    let gseEndLen := FRAG_ID_LEN + remaining + CRC_LEN
    if bufLen ≥ gseEndLen + FIXED_HEADER_LEN ∧ gseEndLen ≤ GSE_LEN_MAX then
      -- end packet: the CRC is written first, then header, frag id and payload
      let header := genHeader .end_ .reuse (gseEndLen % 65536)
      let off := FIXED_HEADER_LEN + FRAG_ID_LEN + remaining
      match blit buf off (be32 ctx.crc) with
      | none => (.panic, buf)
      | some b1 =>
        let status := EncStatus.completed ((off + CRC_LEN) % 65536)
        match slice pdu pos remaining with
        | none => (.panic, b1)
        | some payload =>
          match wrSeq b1 0 [be16 header, [u8 ctx.fragId], payload] with
          | none => (.panic, b1)
          | some (b, _) => (.ok status, b)
    else if bufLen > FIXED_HEADER_LEN + FRAG_ID_LEN then
      let avail := min (bufLen - (FIXED_HEADER_LEN + FRAG_ID_LEN)) (GSE_LEN_MAX - FRAG_ID_LEN)
      let n := if avail > remaining then remaining else avail
      let gseLen := FRAG_ID_LEN + n
      if n = 0 then (.err .sizeBuffer, buf)
      else
        let header := genHeader .inter .reuse (gseLen % 65536)
        let newCtx : FragCtx := ⟨ctx.fragId, ctx.crc, (pos + n) % 65536⟩
        let status := EncStatus.fragmented ((FIXED_HEADER_LEN + gseLen) % 65536) newCtx
        match slice pdu pos n with
        | none => (.panic, buf)
        | some payload =>
          match wrSeq buf 0 [be16 header, [u8 ctx.fragId], payload] with
          | none => (.panic, buf)
          | some (b, _) => (.ok status, b)
    else (.err .sizeBuffer, buf)

/-- `encap_ext(pdu, frag_id, metadata, buffer, extensions)` -/
def encapExt (crc : CrcFn) (es : Enc) (pdu : Bytes) (fid pt : Nat) (label : Label)
    (buf : Bytes) (exts : List Ext) : EncOut :=
  match exts.getLast? with
  | none => ⟨.err .noExtensionFound, buf, es⟩
  | some lastExt =>
    let finalMand := decide (pt < MAX_MANDATORY_VAL_PTYPE)
    if pt < MAX_MANDATORY_VAL_PTYPE ∧ (lastExt.id ≠ pt ∨ lastExt.kind ≠ .mandatory) then
      ⟨.err .finalMandatoryExtensionHeader, buf, es⟩
    else if MAX_MANDATORY_VAL_PTYPE ≤ pt ∧ pt < SECOND_RANGE_PTYPE then ⟨.err .protocolType, buf, es⟩
    else
      let sumExt := (exts.map Ext.len).sum
      if finalMand ∧ sumExt < PROTOCOL_LEN then ⟨.panic, buf, es⟩   -- usize subtraction
      else
        let extLen := if finalMand then sumExt - PROTOCOL_LEN else sumExt
        if label = zeroLabel then ⟨.err .invalidLabel, buf, es⟩
        else
          let (lbl, es1) := checkLabelReUse es label
          let restored : Enc := { es1 with last := es.last, reCur := es.reCur }
          let labelLen := lbl.len
          let pduLen := pdu.length
          let gseLenMin := pduLen + labelLen + PROTOCOL_LEN + extLen
          let minHeaderLen := FIXED_HEADER_LEN + PROTOCOL_LEN + labelLen + extLen
          let bufLen := buf.length
          let firstId := match exts.head? with | some e => e.id | none => 0
          let tail : List Bytes :=
            [be16 firstId, lbl.bytes, extChain exts] ++ (if finalMand then [] else [be16 pt])
          if bufLen ≥ minHeaderLen + pduLen ∧ GSE_LEN_MAX ≥ gseLenMin then
            let gseLen := gseLenMin % 65536
            let header := genHeader .complete lbl.type gseLen
            if gseLen + FIXED_HEADER_LEN ≥ 65536 then ⟨.panic, buf, es1⟩
            else
              match slice pdu 0 pduLen with
              | none => ⟨.panic, buf, es1⟩
              | some payload =>
                match wrSeq buf 0 ([be16 header] ++ tail ++ [payload]) with
                | none => ⟨.panic, buf, es1⟩
                | some (b, _) => ⟨.ok (.completed (gseLen + FIXED_HEADER_LEN)), b, es1⟩
          else
            let minHeaderLen := minHeaderLen + FRAG_ID_LEN + TOTAL_LENGTH_LEN
            if bufLen < minHeaderLen then ⟨.err .sizeBuffer, buf, restored⟩
            else if TOTAL_LEN_MAX < pduLen + PROTOCOL_LEN + labelLen then ⟨.err .pduLength, buf, restored⟩
            else
              let hdrGse := FRAG_ID_LEN + TOTAL_LENGTH_LEN + PROTOCOL_LEN + labelLen + extLen
              if GSE_LEN_MAX < hdrGse then ⟨.err .pduLength, buf, restored⟩
              else
                let n := min (bufLen - minHeaderLen) (GSE_LEN_MAX - hdrGse)
                let gseLen := (hdrGse + n) % 65536
                let header := genHeader .first lbl.type gseLen
                let totalLen := (pduLen + PROTOCOL_LEN + labelLen) % 65536
                let ctx : FragCtx := ⟨fid, crc pdu pt totalLen lbl.bytes, n % 65536⟩
                let pktLen := (FIRST_FRAG_LEN + labelLen + extLen + n) % 65536
                match slice pdu 0 n with
                | none => ⟨.panic, buf, es1⟩
                | some payload =>
                  match wrSeq buf 0 ([be16 header, [u8 fid], be16 totalLen] ++ tail ++ [payload]) with
                  | none => ⟨.panic, buf, es1⟩
                  | some (b, _) => ⟨.ok (.fragmented pktLen ctx), b, es1⟩

/-- `EncapPreview` -/
structure Preview where
  kind : PktType
  pduLen : Nat
  pktLen : Nat
  deriving DecidableEq, Repr, Inhabited

/-- `encap_preview(pdu, metadata, buffer)`; only the lengths of `pdu` and `buffer` matter. -/
def encapPreview (pduLen pt : Nat) (label : Label) (bufLen : Nat) : Res EncErr Preview :=
  let labelLen := label.len
  let gseLenMin := pduLen + labelLen + PROTOCOL_LEN
  if label = zeroLabel then .err .invalidLabel
  else if MAX_MANDATORY_VAL_PTYPE ≤ pt ∧ pt < SECOND_RANGE_PTYPE then .err .protocolType
  else
    let minHeaderLen := FIXED_HEADER_LEN + PROTOCOL_LEN + labelLen
    if bufLen ≥ minHeaderLen + pduLen ∧ GSE_LEN_MAX ≥ gseLenMin then
      let gseLen := gseLenMin % 65536
      if gseLen + FIXED_HEADER_LEN ≥ 65536 then .panic
      else .ok ⟨.complete, pduLen, gseLen + FIXED_HEADER_LEN⟩
    else
      let minHeaderLen := minHeaderLen + FRAG_ID_LEN + TOTAL_LENGTH_LEN
      if bufLen < minHeaderLen then .err .sizeBuffer
      else if TOTAL_LEN_MAX < pduLen + PROTOCOL_LEN + labelLen then .err .pduLength
      else
        let hdrGse := FRAG_ID_LEN + TOTAL_LENGTH_LEN + PROTOCOL_LEN + labelLen
        if GSE_LEN_MAX < hdrGse then .panic
        else
          let n := min (bufLen - minHeaderLen) (GSE_LEN_MAX - hdrGse)
          let gseLen := (hdrGse + n) % 65536
          if gseLen + FIXED_HEADER_LEN ≥ 65536 then .panic
          else .ok ⟨.first, pduLen, gseLen + FIXED_HEADER_LEN⟩

/-- `encap_frag_preview(pdu, context, buffer)` -/
def encapFragPreview (pduLen : Nat) (ctx : FragCtx) (bufLen : Nat) : Res EncErr Preview :=
  let pos := ctx.pos
  if pos > pduLen then .err .pduLength
  else
    let remaining := pduLen - pos
    let gseEndLen := FRAG_ID_LEN + remaining + CRC_LEN
    if bufLen ≥ gseEndLen + FIXED_HEADER_LEN ∧ gseEndLen ≤ GSE_LEN_MAX then
      .ok ⟨.end_, remaining, (FIXED_HEADER_LEN + FRAG_ID_LEN + remaining + CRC_LEN) % 65536⟩
    else if bufLen > FIXED_HEADER_LEN + FRAG_ID_LEN then
      let avail := min (bufLen - (FIXED_HEADER_LEN + FRAG_ID_LEN)) (GSE_LEN_MAX - FRAG_ID_LEN)
      let n := if avail > remaining then remaining else avail
      let gseLen := FRAG_ID_LEN + n
      if n = 0 then .err .sizeBuffer
      else .ok ⟨.inter, n, (FIXED_HEADER_LEN + gseLen) % 65536⟩
    else .err .sizeBuffer

end Gse
