/-
Model of `generate_gse_header` (src/gse_encap/mod.rs) and `read_gse_header`
(src/gse_decap/mod.rs).  16-bit words are `Nat`s; the callers cast with `% 65536`.
-/
import GseVerif.Model.Label

namespace Gse
open Gen

def startEndBits : PktType → Nat
  | .complete => COMPLETE_PKT
  | .first => FIRST_PKT
  | .inter => INTERMEDIATE_PKT
  | .end_ => END_PKT

def labelTypeBits : LabelType → Nat
  | .six => LABEL_6_B
  | .three => LABEL_3_B
  | .broadcast => LABEL_BROADCAST
  | .reuse => LABEL_REUSE

/-- `generate_gse_header(pkt_type, label_type, gse_len)` with `gse_len : u16`. -/
def genHeader (k : PktType) (lt : LabelType) (gseLen : Nat) : Nat :=
  (startEndBits k &&& START_END_MASK) ||| (labelTypeBits lt &&& LABEL_TYPE_MASK)
    ||| (gseLen &&& GSE_LEN_MASK)

/-- `read_gse_header(w)`: `panic` models the two `unreachable!()` arms,
`ok none` the padding pattern. -/
def readHeader (w : Nat) : Res Unit (Option (Nat × PktType × LabelType)) :=
  let se := w &&& START_END_MASK
  let k? : Option PktType :=
    if se = COMPLETE_PKT then some .complete
    else if se = FIRST_PKT then some .first
    else if se = END_PKT then some .end_
    else if se = INTERMEDIATE_PKT then some .inter
    else none
  let lb := w &&& LABEL_TYPE_MASK
  let lt? : Option LabelType :=
    if lb = LABEL_6_B then some .six
    else if lb = LABEL_3_B then some .three
    else if lb = LABEL_BROADCAST then some .broadcast
    else if lb = LABEL_REUSE then some .reuse
    else none
  match k?, lt? with
  | some k, some lt =>
    if k = .inter ∧ lt = .six then .ok none
    else .ok (some (w &&& GSE_LEN_MASK, k, lt))
  | _, _ => .panic

end Gse
