/-
Model of src/gse_decap/mod.rs: `Decapsulator::decap` with its four per-kind functions,
the extension-header walker and `get_label_or_frag_id`.

The decapsulator state is its `SimpleGseMemory` and its label memory; the CRC calculator
and the mandatory-extension manager are parameters.  Every read of the input buffer goes
through `slice`/`get16`/`get8`, which return `none` exactly where Rust would panic.
-/
import GseVerif.Model.Header
import GseVerif.Model.Crc
import GseVerif.Model.Memory

namespace Gse
open Gen

/-- `DecapMetadata` -/
structure Meta where
  pduLen : Nat
  pt : Nat
  label : Label
  exts : List Ext
  deriving DecidableEq, Repr, Inhabited

/-- `DecapStatus` -/
inductive DecStatus where
  | completed (s : Storage) (m : Meta)
  | fragmented (m : Meta)
  | padding
  deriving DecidableEq, Repr, Inhabited

/-- `DecapError` -/
inductive DecErr where
  | sizeBuffer | totalLength | gseLength | sizePduBuffer | protocolType
  | memory (e : MemErr)
  | crc | invalidLabel | noLabelSaved | labelBroadcastSaved | labelReUseSaved
  | unknownMandatoryHeader
  deriving DecidableEq, Repr, Inhabited

/-- mutable state of a `Decapsulator<SimpleGseMemory, _, _>` -/
structure Dec where
  mem : Mem
  last : Option Label
  deriving DecidableEq, Repr, Inhabited

/-- result, consumed length (second component of both `Ok` and `Err`), new state -/
structure DecOut where
  res : Res DecErr DecStatus
  consumed : Nat
  st : Dec
  deriving DecidableEq, Repr, Inhabited

/-- `ExtensionHeaderError` -/
inductive WalkErr where
  | unknownMandatoryHeader | bufferTooSmall
  deriving DecidableEq, Repr, Inhabited

/-- `IterateOverExtensionHeaderStatus` -/
structure WalkOk where
  exts : List Ext
  pt : Nat
  len : Nat
  deriving DecidableEq, Repr, Inhabited

/-- The `while protocol_type < SECOND_RANGE_PTYPE` loop of
`iterate_over_extension_header`; `exts` is accumulated in reverse.  Each iteration that
continues consumes the two bytes of the next type field, so `fuel = pdu.length + 1`
is never exhausted (lemma `walkExt_fuel`); running out of fuel is reported as `panic`. -/
def walkLoop (mgr : MgrFn) (pdu : Bytes) : Nat → Nat → Nat → List Ext → Res WalkErr WalkOk
  | 0, _, _, _ => .panic
  | fuel + 1, pt, off, acc =>
    if pt < SECOND_RANGE_PTYPE then
      let hLen := (pt &&& H_LEN_MASK) >>> 8
      if hLen ≥ 256 then .panic   -- try_into::<u8>().unwrap()
      else if hLen = 0 then
        match mgr pt with
        | .unknown => .err .unknownMandatoryHeader
        | .final sz =>
          if pdu.length < off + sz then .err .bufferTooSmall
          else match slice pdu off sz with
            | none => .panic
            | some d =>
              match extNew pt d with
              | .ok e => .ok ⟨(e :: acc).reverse, pt, off + sz⟩
              | _ => .panic   -- todo!()
        | .nonFinal sz =>
          if pdu.length < off + sz then .err .bufferTooSmall
          else match slice pdu off sz with
            | none => .panic
            | some d =>
              match extNew pt d with
              | .ok e =>
                let off := off + sz
                if pdu.length < off + PROTOCOL_LEN then .err .bufferTooSmall
                else match get16 pdu off with
                  | none => .panic
                  | some pt' => walkLoop mgr pdu fuel pt' (off + PROTOCOL_LEN) (e :: acc)
              | _ => .panic   -- todo!()
      else
        match hlenDataSize hLen with
        | none => .panic   -- unreachable!()
        | some sz =>
          if pdu.length < off + sz then .err .bufferTooSmall
          else match slice pdu off sz with
            | none => .panic
            | some d =>
              match extNew pt d with
              | .ok e =>
                let off := off + sz
                if pdu.length < off + PROTOCOL_LEN then .err .bufferTooSmall
                else match get16 pdu off with
                  | none => .panic
                  | some pt' => walkLoop mgr pdu fuel pt' (off + PROTOCOL_LEN) (e :: acc)
              | _ => .panic   -- todo!()
    else .ok ⟨acc.reverse, pt, off⟩

/-- `iterate_over_extension_header(pdu, manager, first_ext_id)` -/
def walkExt (mgr : MgrFn) (pdu : Bytes) (firstId : Nat) : Res WalkErr WalkOk :=
  walkLoop mgr pdu (pdu.length + 1) firstId 0 []

/-- shorthand: leave with an error, the label memory cleared -/
@[inline] def Dec.fail (_ds : Dec) (m : Mem) (e : DecErr) (n : Nat) : DecOut :=
  ⟨.err e, n, ⟨m, none⟩⟩

/-- The give-back on an error exit: `if let Err(err) = provision_storage(s) { return ErrorMemory(err) }`
followed by `return Err(e)`. -/
def giveBack (m : Mem) (last : Option Label) (s : Storage) (e : DecErr) (n : Nat) : DecOut :=
  match m.provision s with
  | (.ok (), m') => ⟨.err e, n, ⟨m', last⟩⟩
  | (.err me, m') => ⟨.err (.memory me), n, ⟨m', last⟩⟩
  | (.panic, m') => ⟨.panic, n, ⟨m', last⟩⟩

/-- the common label resolution of start/complete packets -/
inductive LabelRes where
  | ok (l : Label) (last : Option Label)
  | bad (e : DecErr)

def resolveLabel (lt : LabelType) (label : Label) (last : Option Label) : LabelRes :=
  match lt with
  | .reuse =>
    match last with
    | some .broadcast => .bad .labelBroadcastSaved
    | some .reuse => .bad .labelReUseSaved
    | none => .bad .noLabelSaved
    | some l => .ok l last
  | .broadcast => .ok .broadcast none
  | _ => .ok label (some label)

/-- `decap_complete` -/
def decapComplete (mgr : MgrFn) (ds : Dec) (buf : Bytes) (lt : LabelType) (pktLen gseLen : Nat) : DecOut :=
  let bufLen := buf.length
  let labelLen := lt.len
  let off := FIXED_HEADER_LEN
  if gseLen < labelLen + PROTOCOL_LEN then ds.fail ds.mem .gseLength bufLen
  else
    match get16 buf off with
    | none => ⟨.panic, 0, ds⟩
    | some pt0 =>
      let off := off + PROTOCOL_LEN
      match (slice buf off labelLen).bind (Label.new lt) with
      | none => ⟨.panic, 0, ds⟩
      | some label =>
        let off := off + labelLen
        if label = zeroLabel then ds.fail ds.mem .invalidLabel pktLen
        else
          -- extension headers
          let walk : Res WalkErr WalkOk :=
            if pt0 < SECOND_RANGE_PTYPE then
              if pktLen < off then .panic   -- &buffer[offset..pkt_len]
              else match slice buf off (pktLen - off) with
                | none => .panic
                | some sub => walkExt mgr sub pt0
            else .ok ⟨[], pt0, 0⟩
          match walk with
          | .panic => ⟨.panic, 0, ds⟩
          | .err .bufferTooSmall => ds.fail ds.mem .sizePduBuffer bufLen
          | .err .unknownMandatoryHeader => ds.fail ds.mem .unknownMandatoryHeader pktLen
          | .ok w =>
            let off := off + w.len
            match ds.mem.newPdu with
            | (.panic, m1) => ⟨.panic, 0, ⟨m1, ds.last⟩⟩
            | (.err e, m1) => ds.fail m1 (.memory e) pktLen
            | (.ok st, m1) =>
              if st.data.length + labelLen + w.len + PROTOCOL_LEN < gseLen then
                giveBack m1 none st .sizePduBuffer pktLen
              else if gseLen < labelLen + w.len + PROTOCOL_LEN then ⟨.panic, 0, ⟨m1, ds.last⟩⟩ -- usize subtraction
              else
                let n := gseLen - labelLen - w.len - PROTOCOL_LEN
                match (slice buf off n).bind (blit st.data 0) with
                | none => ⟨.panic, 0, ⟨m1, ds.last⟩⟩
                | some data =>
                  let st' : Storage := { st with data := data }
                  match resolveLabel lt label ds.last with
                  | .bad e => giveBack m1 none st' e pktLen
                  | .ok cur last' =>
                    ⟨.ok (.completed st' ⟨n, w.pt, cur, w.exts⟩), pktLen, ⟨m1, last'⟩⟩

/-- `decap_first` -/
def decapFirst (mgr : MgrFn) (ds : Dec) (buf : Bytes) (lt : LabelType) (pktLen gseLen : Nat) : DecOut :=
  let bufLen := buf.length
  let labelLen := lt.len
  let off := FIXED_HEADER_LEN
  if gseLen < labelLen + PROTOCOL_LEN + FRAG_ID_LEN + TOTAL_LENGTH_LEN then
    ds.fail ds.mem .gseLength bufLen
  else
    match get8 buf off, get16 buf (off + FRAG_ID_LEN),
          get16 buf (off + FRAG_ID_LEN + TOTAL_LENGTH_LEN) with
    | some fragId, some totalLen, some pt0 =>
      let off := off + FRAG_ID_LEN + TOTAL_LENGTH_LEN + PROTOCOL_LEN
      match (slice buf off labelLen).bind (Label.new lt) with
      | none => ⟨.panic, 0, ds⟩
      | some label =>
        let off := off + labelLen
        if label = zeroLabel then ds.fail ds.mem .invalidLabel pktLen
        else
          match resolveLabel lt label ds.last with
          | .bad e => ds.fail ds.mem e pktLen
          | .ok cur last' =>
            let walk : Res WalkErr WalkOk :=
              if pt0 < SECOND_RANGE_PTYPE then
                if pktLen < off then .panic
                else match slice buf off (pktLen - off) with
                  | none => .panic
                  | some sub => walkExt mgr sub pt0
              else .ok ⟨[], pt0, 0⟩
            match walk with
            | .panic => ⟨.panic, 0, ⟨ds.mem, last'⟩⟩
            | .err .bufferTooSmall => ds.fail ds.mem .sizePduBuffer bufLen
            | .err .unknownMandatoryHeader => ds.fail ds.mem .unknownMandatoryHeader pktLen
            | .ok w =>
              let off := off + w.len
              let hdr := FRAG_ID_LEN + TOTAL_LENGTH_LEN + labelLen + w.len + PROTOCOL_LEN
              if gseLen < hdr then ⟨.panic, 0, ⟨ds.mem, last'⟩⟩   -- usize subtraction
              else
                let n := gseLen - hdr
                if totalLen ≤ n % 65536 then ds.fail ds.mem .totalLength bufLen
                else
                  let ctx : Ctx := ⟨cur, w.pt, fragId, totalLen, n % 65536, lt == .reuse, w.exts⟩
                  match ds.mem.newFrag ctx with
                  | (.panic, m1) => ⟨.panic, 0, ⟨m1, last'⟩⟩
                  | (.err e, m1) => ds.fail m1 (.memory e) pktLen
                  | (.ok (ctx, st), m1) =>
                    if st.data.length + labelLen + w.len + PROTOCOL_LEN + FRAG_ID_LEN + TOTAL_LENGTH_LEN < gseLen then
                      giveBack m1 none st .sizePduBuffer pktLen
                    else
                      match (slice buf off n).bind (blit st.data 0) with
                      | none => ⟨.panic, 0, ⟨m1, last'⟩⟩
                      | some data =>
                        let st' : Storage := { st with data := data }
                        let md : Meta := ⟨0, ctx.pt, ctx.label, w.exts⟩
                        match m1.saveFrag (ctx, st') with
                        | (.ok (), m2) => ⟨.ok (.fragmented md), pktLen, ⟨m2, last'⟩⟩
                        | (.err e, m2) => ⟨.err (.memory e), pktLen, ⟨m2, last'⟩⟩
                        | (.panic, m2) => ⟨.panic, 0, ⟨m2, last'⟩⟩
    | _, _, _ => ⟨.panic, 0, ds⟩

/-- `decap_intermediate` -/
def decapInter (ds : Dec) (buf : Bytes) (pktLen gseLen : Nat) : DecOut :=
  let bufLen := buf.length
  let off := FIXED_HEADER_LEN
  if gseLen ≤ FRAG_ID_LEN then ds.fail ds.mem .gseLength bufLen
  else
    match get8 buf off with
    | none => ⟨.panic, 0, ds⟩
    | some fragId =>
      let off := off + FRAG_ID_LEN
      let n := gseLen - FRAG_ID_LEN
      match ds.mem.takeFrag fragId with
      | (.panic, m1) => ⟨.panic, 0, ⟨m1, ds.last⟩⟩
      | (.err e, m1) => ⟨.err (.memory e), pktLen, ⟨m1, ds.last⟩⟩
      | (.ok (ctx, st), m1) =>
        if ctx.pduLen + n > 65535 then giveBack m1 ds.last st .totalLength pktLen
        else if st.data.length < ctx.pduLen then ⟨.panic, 0, ⟨m1, ds.last⟩⟩   -- &mut pdu[pdu_len..]
        else if st.data.length - ctx.pduLen < n then giveBack m1 ds.last st .sizePduBuffer pktLen
        else
          match (slice buf off n).bind (blit st.data ctx.pduLen) with
          | none => ⟨.panic, 0, ⟨m1, ds.last⟩⟩
          | some data =>
            let st' : Storage := { st with data := data }
            let ctx' : Ctx := { ctx with pduLen := ctx.pduLen + n }
            let md : Meta := ⟨0, ctx.pt, ctx.label, ctx.exts⟩
            match m1.saveFrag (ctx', st') with
            | (.ok (), m2) => ⟨.ok (.fragmented md), pktLen, ⟨m2, ds.last⟩⟩
            | (.err e, m2) => ⟨.err (.memory e), pktLen, ⟨m2, ds.last⟩⟩
            | (.panic, m2) => ⟨.panic, 0, ⟨m2, ds.last⟩⟩

/-- `decap_end` -/
def decapEnd (crc : CrcFn) (ds : Dec) (buf : Bytes) (pktLen gseLen : Nat) : DecOut :=
  let bufLen := buf.length
  let off := FIXED_HEADER_LEN
  if gseLen < FRAG_ID_LEN + CRC_LEN then ds.fail ds.mem .sizeBuffer bufLen
  else
    match get8 buf off with
    | none => ⟨.panic, 0, ds⟩
    | some fragId =>
      let off := off + FRAG_ID_LEN
      let n := gseLen - (FRAG_ID_LEN + CRC_LEN)
      match ds.mem.takeFrag fragId with
      | (.panic, m1) => ⟨.panic, 0, ⟨m1, ds.last⟩⟩
      | (.err e, m1) => ⟨.err (.memory e), pktLen, ⟨m1, ds.last⟩⟩
      | (.ok (ctx, st), m1) =>
        if st.data.length < ctx.pduLen then ⟨.panic, 0, ⟨m1, ds.last⟩⟩
        else if st.data.length - ctx.pduLen < n then giveBack m1 ds.last st .sizePduBuffer pktLen
        else
          match (slice buf off n).bind (blit st.data ctx.pduLen), get32 buf (off + n) with
          | some data, some rxCrc =>
            let st' : Storage := { st with data := data }
            let pduLen := ctx.pduLen + n
            let md : Meta := ⟨pduLen, ctx.pt, ctx.label, ctx.exts⟩
            let firstLabelLen := if ctx.fromReuse then 0 else ctx.label.type.len
            let crcLabel : Bytes := if ctx.fromReuse then [] else ctx.label.bytes
            if ctx.totalLen ≠ pduLen + PROTOCOL_LEN + firstLabelLen then
              giveBack m1 ds.last st' .totalLength pktLen
            else
              match slice st'.data 0 pduLen with
              | none => ⟨.panic, 0, ⟨m1, ds.last⟩⟩
              | some pdu =>
                if crc pdu ctx.pt ctx.totalLen crcLabel ≠ rxCrc then
                  giveBack m1 ds.last st' .crc pktLen
                else ⟨.ok (.completed st' md), pktLen, ⟨m1, ds.last⟩⟩
          | _, _ => ⟨.panic, 0, ⟨m1, ds.last⟩⟩

/-- `Decapsulator::decap` -/
def decap (crc : CrcFn) (mgr : MgrFn) (ds : Dec) (buf : Bytes) : DecOut :=
  let bufLen := buf.length
  if bufLen < FIXED_HEADER_LEN then ds.fail ds.mem .sizeBuffer bufLen
  else
    match get16 buf 0 with
    | none => ⟨.panic, 0, ds⟩
    | some w =>
      match readHeader w with
      | .panic => ⟨.panic, 0, ds⟩
      | .err _ => ⟨.panic, 0, ds⟩
      | .ok none => ⟨.ok .padding, bufLen, ⟨ds.mem, none⟩⟩
      | .ok (some (gseLen, k, lt)) =>
        let pktLen := gseLen + FIXED_HEADER_LEN
        if bufLen < pktLen then ds.fail ds.mem .sizeBuffer bufLen
        else
          match k with
          | .complete => decapComplete mgr ds buf lt pktLen gseLen
          | .first => decapFirst mgr ds buf lt pktLen gseLen
          | .inter => decapInter ds buf pktLen gseLen
          | .end_ => decapEnd crc ds buf pktLen gseLen

/-- `LabelorFragId` -/
inductive PeekOk where
  | lbl (l : Label) | fragId (n : Nat)
  deriving DecidableEq, Repr, Inhabited

/-- `GetLabelorFragIdError` -/
inductive PeekErr where
  | labelReuse | sizeBuffer | headerRead | unknownMandatoryHeader
  deriving DecidableEq, Repr, Inhabited

/-- `get_label_or_frag_id` -/
def peek (buf : Bytes) : Res PeekErr PeekOk :=
  if buf.length < FIXED_HEADER_LEN then .err .sizeBuffer
  else
    match get16 buf 0 with
    | none => .panic
    | some w =>
      match readHeader w with
      | .panic => .panic
      | .err _ => .panic
      | .ok none => .err .headerRead
      | .ok (some (_, k, lt)) =>
        if k = .inter ∨ k = .end_ then
          if buf.length < FIXED_HEADER_LEN + PROTOCOL_LEN + lt.len then .err .sizeBuffer
          else match get8 buf FIXED_HEADER_LEN with
            | none => .panic
            | some f => .ok (.fragId f)
        else if lt = .broadcast then .ok (.lbl .broadcast)
        else if lt = .reuse then .err .labelReuse
        else
          let off := FIXED_HEADER_LEN + (if k = .first then TOTAL_LENGTH_LEN + FRAG_ID_LEN else 0) + PROTOCOL_LEN
          if buf.length < off + lt.len then .err .sizeBuffer
          else
            match lt with
            | .three =>
              match (slice buf off LABEL_3_B_LEN).bind (Label.new .three) with
              | some l => .ok (.lbl l)
              | none => .panic
            | .six =>
              match (slice buf off LABEL_6_B_LEN).bind (Label.new .six) with
              | some l => .ok (.lbl l)
              | none => .panic
            | _ => .panic   -- unreachable!()

end Gse
