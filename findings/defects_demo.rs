use dvb_gse_rust::crc::DefaultCrc;
use dvb_gse_rust::gse_decap::*;
use dvb_gse_rust::gse_encap::*;
use dvb_gse_rust::header_extension::*;
use dvb_gse_rust::label::Label;

fn l6() -> Label { Label::SixBytesLabel(*b"abcdef") }
fn l6b() -> Label { Label::SixBytesLabel(*b"ABCDEF") }

fn mkdec(slots: usize, maxpdu: usize, sizes: &[usize]) -> Decapsulator<SimpleGseMemory, DefaultCrc, SimpleMandatoryExtensionHeaderManager> {
    let mut m = SimpleGseMemory::new(slots, maxpdu, 0, 0);
    for s in sizes { m.provision_storage(vec![0u8; *s].into_boxed_slice()).unwrap(); }
    Decapsulator::new(m, DefaultCrc{}, SimpleMandatoryExtensionHeaderManager{})
}

#[test]
fn d01_first_fragment_clamp() {
    let mut e = Encapsulator::new(DefaultCrc{});
    let pdu = vec![7u8; 5000];
    let mut buf = vec![0u8; 70000];
    let r = e.encap(&pdu, 1, EncapMetadata::new(0x800, l6()), &mut buf);
    match r { Ok(EncapStatus::FragmentedPkt(n, _)) => {
        assert!(n as usize <= 4097);
        let w = u16::from_be_bytes([buf[0], buf[1]]);
        assert_eq!((w & 0xfff) as usize + 2, n as usize);
    }, x => panic!("{:?}", x) }
    let pdu = vec![7u8; 6000];
    let mut buf = vec![0u8; 5000];
    let r = e.encap(&pdu, 1, EncapMetadata::new(0x800, l6b()), &mut buf);
    match r { Ok(EncapStatus::FragmentedPkt(n, _)) => {
        let w = u16::from_be_bytes([buf[0], buf[1]]);
        assert_eq!((w & 0xfff) as usize + 2, n as usize);
    }, x => panic!("{:?}", x) }
}

#[test]
fn d02_frag_clamp() {
    let e = Encapsulator::new(DefaultCrc{});
    let pdu = vec![7u8; 6000];
    let ctx = ContextFrag::new(1, 0x12345678, 1000);
    let mut buf = vec![0u8; 70000];
    match e.encap_frag(&pdu, &ctx, &mut buf) {
        Ok(EncapStatus::FragmentedPkt(n, c)) => {
            let w = u16::from_be_bytes([buf[0], buf[1]]);
            assert_eq!((w & 0xfff) as usize + 2, n as usize);
            assert_eq!(c.len_pdu_frag() as usize, 1000 + n as usize - 3);
        }
        x => panic!("{:?}", x),
    }
    let mut buf = vec![0u8; 4500];
    match e.encap_frag(&pdu, &ctx, &mut buf) {
        Ok(EncapStatus::FragmentedPkt(n, _)) => {
            let w = u16::from_be_bytes([buf[0], buf[1]]);
            assert_eq!((w & 0xfff) as usize + 2, n as usize);
        }
        x => panic!("{:?}", x),
    }
}

#[test]
fn d03_empty_intermediate() {
    let e = Encapsulator::new(DefaultCrc{});
    let pdu = vec![7u8; 100];
    let ctx = ContextFrag::new(1, 0x12345678, 100);
    for n in 4..7 {
        let mut buf = vec![0u8; n];
        assert_eq!(e.encap_frag(&pdu, &ctx, &mut buf), Err(EncapError::ErrorSizeBuffer));
        assert_eq!(encap_frag_preview(&pdu, &ctx, &buf).err(), Some(EncapError::ErrorSizeBuffer));
    }
}

#[test]
fn d04_reuse_after_failed_encap() {
    let mut e = Encapsulator::new(DefaultCrc{});
    let pdu = vec![7u8; 10];
    let mut buf = vec![0u8; 100];
    e.encap(&pdu, 1, EncapMetadata::new(0x800, l6()), &mut buf).unwrap();
    let mut small = vec![0u8; 3];
    assert!(e.encap(&pdu, 1, EncapMetadata::new(0x800, l6b()), &mut small).is_err());
    e.encap(&pdu, 1, EncapMetadata::new(0x800, l6b()), &mut buf).unwrap();
    // must carry the full label B, not re-use
    assert_eq!(buf[0] & 0x30, 0x00);
    // same through encap_ext
    let mut e = Encapsulator::new(DefaultCrc{});
    e.encap(&pdu, 1, EncapMetadata::new(0x800, l6()), &mut buf).unwrap();
    let ext = vec![Extension::new(0x300, &[1,2,3,4]).unwrap()];
    assert!(e.encap_ext(&pdu, 1, EncapMetadata::new(0x800, l6b()), &mut small, ext.clone()).is_err());
    e.encap_ext(&pdu, 1, EncapMetadata::new(0x800, l6b()), &mut buf, ext).unwrap();
    assert_eq!(buf[0] & 0x30, 0x00);
}

#[test]
fn d05_ext_first_fragment_length() {
    let mut e = Encapsulator::new(DefaultCrc{});
    let pdu: Vec<u8> = (0..100u8).collect();
    let mut buf = vec![0u8; 50];
    let ext = vec![Extension::new(0x300, &[1,2,3,4]).unwrap()];
    match e.encap_ext(&pdu, 1, EncapMetadata::new(0x800, l6()), &mut buf, ext) {
        Ok(EncapStatus::FragmentedPkt(n, c)) => {
            let w = u16::from_be_bytes([buf[0], buf[1]]);
            assert_eq!((w & 0xfff) as usize + 2, n as usize, "reported length vs header");
            // payload = n - (2+1+2+2+6+4+2)
            assert_eq!(c.len_pdu_frag() as usize, n as usize - 19);
            assert_eq!(&buf[19..n as usize], &pdu[..n as usize - 19]);
            assert_eq!(n, 50);
        }
        x => panic!("{:?}", x),
    }
}

#[test]
fn d06_ext_ptype_not_encodable() {
    let mut e = Encapsulator::new(DefaultCrc{});
    let pdu = vec![7u8; 10];
    let mut buf = vec![0u8; 100];
    let ext = vec![Extension::new(770, &[1,2,3,4]).unwrap()];
    assert!(e.encap_ext(&pdu, 1, EncapMetadata::new(0x81, l6()), &mut buf, ext).is_err());
}

#[test]
fn d07_ext_new_0x600() {
    assert!(Extension::new(0x600, &[]).is_err());
    assert!(Extension::new(0x600, &[1,2]).is_err());
}

#[test]
fn d08_decap_short_packets() {
    for b in [vec![0xc0u8, 0], vec![0x80, 0], vec![0x30, 0], vec![0x70, 0], vec![0xd0, 1, 0], vec![0x90,1,0], vec![0x80, 2, 0, 0], vec![0xc0,1,5]] {
        let mut d = mkdec(2, 10, &[10, 10]);
        let r = d.decap(&b);
        assert!(r.is_err(), "{:?}", b);
    }
}

#[test]
fn d09_ext_walker_bounds() {
    let mut d = mkdec(2, 10, &[10, 10]);
    assert!(d.decap(&[0xe0, 0x04, 0x03, 0x02, 0xaa, 0xbb]).is_err());
    // outcome must not depend on trailing bytes
    let mut d1 = mkdec(2, 10, &[10, 10]);
    let mut d2 = mkdec(2, 10, &[10, 10]);
    let p = [0xe0u8, 0x04, 0x03, 0x02, 0xaa, 0xbb];
    let mut a = p.to_vec(); a.extend_from_slice(&[0x08, 0x00, 1, 2, 3, 4]);
    let mut b = p.to_vec(); b.extend_from_slice(&[0xff, 0xff, 0xff, 0xff, 0xff, 0xff, 0xff, 0xff, 0xff, 0xff]);
    let ra = d1.decap(&a); let rb = d2.decap(&b);
    assert_eq!(ra.is_ok(), rb.is_ok(), "{:?} {:?}", ra, rb);
}

#[test]
fn d10_reuse_error_leaks_buffer() {
    let mut d = mkdec(1, 10, &[10]);
    // complete packet, re-use label, no label remembered
    let r = d.decap(&[0xf0, 0x03, 0x08, 0x00, 0x55]);
    assert!(matches!(r, Err((DecapError::ErrorNoLabelSaved, 5))));
    let r = d.decap(&[0xe0, 0x03, 0x08, 0x00, 0x55]);
    assert!(matches!(r, Ok((DecapStatus::CompletedPkt(..), 5))), "{:?}", r);
}

#[test]
fn d11_first_fragment_small_storage() {
    let mut d = mkdec(1, 4, &[4]);
    let mut p = vec![0xa0u8, 15, 1, 0, 100, 0x08, 0x00];
    p.extend_from_slice(&[9u8; 10]);
    let r = d.decap(&p);
    assert!(matches!(r, Err((DecapError::ErrorSizePduBuffer, 17))), "{:?}", r);
    // buffer was given back
    assert!(d.new_pdu().is_ok());
}

#[test]
fn d12_take_frag_aliasing() {
    let mut d = mkdec(2, 20, &[20]);
    // first fragment id 1 (broadcast label), total len 12 = 10 + 2
    let p = [0xa0u8, 10, 1, 0, 12, 0x08, 0x00, 1, 2, 3, 4, 5];
    assert!(d.decap(&p).is_ok());
    // stray intermediate id 3 (aliases slot 1)
    let s = [0x30u8, 3, 3, 9, 9];
    assert!(matches!(d.decap(&s), Err((DecapError::ErrorMemory(DecapMemoryError::UndefinedId), 5))));
    // continuation of id 1 still works
    let i = [0x30u8, 3, 1, 6, 7];
    assert!(d.decap(&i).is_ok(), "context 1 destroyed by stray id 3");
}

#[test]
fn d13_accumulated_length_u16() {
    let mut d = mkdec(1, 80000, &[80000]);
    let mut p = vec![0xa0u8, 6, 1, 0xff, 0xff, 0x08, 0x00, 1];
    assert!(d.decap(&p).is_ok());
    p = vec![0x3f, 0xff, 1];
    p.extend_from_slice(&vec![5u8; 4094]);
    for _ in 0..20 {
        let _ = d.decap(&p);
    }
}

#[test]
fn d14_giveback_unwrap() {
    // 1 slot => capacity 3
    let mut d = mkdec(1, 4, &[4]);
    let p = [0xa0u8, 6, 1, 0, 100, 0x08, 0x00, 1];
    assert!(d.decap(&p).is_ok());
    for _ in 0..3 { d.provision_storage(vec![0u8; 4].into_boxed_slice()).unwrap(); }
    // oversize intermediate
    let i = [0x30u8, 9, 1, 1, 2, 3, 4, 5, 6, 7, 8];
    let r = d.decap(&i);
    assert!(r.is_err());
}

#[test]
fn d15_preview_ptype() {
    let pdu = vec![7u8; 10];
    let buf = vec![0u8; 100];
    let mut e = Encapsulator::new(DefaultCrc{});
    let mut b2 = buf.clone();
    let r = e.encap(&pdu, 1, EncapMetadata::new(0x81, l6()), &mut b2);
    let p = encap_preview(&pdu, EncapMetadata::new(0x81, l6()), &buf);
    assert_eq!(r.is_ok(), p.is_ok());
    let r = e.encap(&pdu, 1, EncapMetadata::new(0x181, l6b()), &mut b2);
    let p = encap_preview(&pdu, EncapMetadata::new(0x181, l6b()), &buf);
    assert_eq!(r.err(), p.err());
}

#[test]
fn d16_disable_stale_label() {
    let mut e = Encapsulator::new(DefaultCrc{});
    let pdu = vec![7u8; 10];
    let mut buf = vec![0u8; 100];
    e.encap(&pdu, 1, EncapMetadata::new(0x800, l6()), &mut buf).unwrap();
    e.disable_re_use_label();
    e.encap(&pdu, 1, EncapMetadata::new(0x800, l6b()), &mut buf).unwrap();
    e.enable_re_use_label();
    e.encap(&pdu, 1, EncapMetadata::new(0x800, l6()), &mut buf).unwrap();
    assert_eq!(buf[0] & 0x30, 0x00, "stale label re-used");
}

#[test]
fn d17_zero_slots() {
    let mut d = mkdec(0, 4, &[4]);
    let p = [0xa0u8, 6, 1, 0, 100, 0x08, 0x00, 1];
    assert!(d.decap(&p).is_err());
    let i = [0x30u8, 3, 1, 1, 2];
    assert!(d.decap(&i).is_err());
}

#[test]
fn d18_huge_extension() {
    let mut e = Encapsulator::new(DefaultCrc{});
    let pdu = vec![7u8; 10];
    let mut buf = vec![0u8; 70000];
    let ext = vec![Extension::new(0x42, &vec![1u8; 5000]).unwrap()];
    let r = e.encap_ext(&pdu, 1, EncapMetadata::new(0x800, l6()), &mut buf, ext);
    assert!(r.is_err());
}

struct Mgr;
impl MandatoryHeaderExtensionManager for Mgr {
    fn is_mandatory_header_id_known(&self, id: u16) -> MandatoryHeaderExt {
        match id { 0x81 => MandatoryHeaderExt::Final(0), 0x42 => MandatoryHeaderExt::NonFinal(3), _ => MandatoryHeaderExt::Unknown }
    }
}

#[test]
fn d19_final_mandatory_short_pdu() {
    let mut e = Encapsulator::new(DefaultCrc{});
    for plen in 0..3usize {
        let pdu = vec![7u8; plen];
        let mut buf = vec![0u8; 100];
        let ext = vec![Extension::new(0x81, &[]).unwrap()];
        let n = match e.encap_ext(&pdu, 1, EncapMetadata::new(0x81, Label::Broadcast), &mut buf, ext.clone()) {
            Ok(EncapStatus::CompletedPkt(n)) => n as usize, x => panic!("{:?}", x) };
        let mut m = SimpleGseMemory::new(1, 10, 0, 0);
        m.provision_storage(vec![0u8; 10].into_boxed_slice()).unwrap();
        let mut d = Decapsulator::new(m, DefaultCrc{}, Mgr);
        let r = d.decap(&buf[..n]);
        match r { Ok((DecapStatus::CompletedPkt(p, md), c)) => { assert_eq!(c, n); assert_eq!(&p[..plen], &pdu[..]); assert_eq!(md.extensions(), &ext); assert_eq!(md.protocol_type(), 0x81); }, x => panic!("plen {} {:?}", plen, x) }
    }
}

#[test]
fn d20_first_fragment_with_extension_storage_check() {
    // a 30-byte PDU with one 4-byte optional extension, first fragment carrying 26 bytes,
    // receiver storage of exactly 30 bytes: the PDU fits, the fragment must be accepted
    let mut e = Encapsulator::new(DefaultCrc{});
    let pdu: Vec<u8> = (0..30u8).collect();
    let mut buf = vec![0u8; 45];
    let ext = vec![Extension::new(0x301, &[0,0,0,0]).unwrap()];
    let n = match e.encap_ext(&pdu, 2, EncapMetadata::new(0x800, l6()), &mut buf, ext) {
        Ok(EncapStatus::FragmentedPkt(n, _)) => n as usize, x => panic!("{:?}", x) };
    let mut d = mkdec(2, 30, &[30, 30]);
    let r = d.decap(&buf[..n]);
    assert!(matches!(r, Ok((DecapStatus::FragmentedPkt(_), _))), "{:?}", r);
}
